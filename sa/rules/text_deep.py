"""SMT-LIB text rules decided by interpretation.

Export (C07):  smtlibscript_from_formula + SmtLibScript.serialize (tree and let-DAG form) and to_smtlib are
               interpreted from source on concrete operator skeletons; the text they write is read by the
               independent reference reader (sa/refsmt.py): it must be well-formed (every sort / symbol
               declared before use and once, well-sorted, let and binder scoping respected) and its single
               assertion must denote the skeleton (structurally, or by exhaustive evaluation over small
               domains when the spelling differs).
Round trip (C09): the exported text is read back by the interpreted SmtLibParser; get_last_formula must be
               the very same node (constant arrays: an equivalent store chain).
Import (C08):  a corpus of scripts exercising every notation is read by the interpreted parser and by the
               reference reader; every asserted term must denote the same thing.  Texts the reference
               reader rejects as ill-formed must not be accepted silently.

Nothing of pySMT is executed; the only concrete computation is on the text the interpreted printer wrote."""
from ..absint import ExtRef, AbsRaise, AObj, Unsupported
from ..common import get_repo, parallel_map
from .. import proc, refsmt, refsem, textsem
from ..proc import Shape, S, BOOL, INT, REAL
from .. import simpcheck as sc

from ..world import World

PARSER = "pysmt.smtlib.parser.parser.SmtLibParser"


class TextWorld(World):
    """Nodes built while reading text go through the interpreted type checker, as create_node does."""

    def __init__(self, *a, **k):
        World.__init__(self, *a, **k)
        self.typecheck = True

BIG = {"max_steps": 4000000, "max_loop": 200000}


# ------------------------------------------------------------------------------------------------ shapes
def export_shapes():
    a, b, c = S("a"), S("b"), S("c")
    x, y, z = S("x", INT), S("y", INT), S("z", INT)
    r, s_ = S("r", REAL), S("s", REAL)
    B4, B8, B1 = ("BV", 4), ("BV", 8), ("BV", 1)
    u, v = S("u", B4), S("v", B4)
    st, tt = S("st", ("STRING",)), S("tt", ("STRING",))
    arr = S("arr", ("ARRAY", INT, INT))
    abv = S("abv", ("ARRAY", B4, B8))
    aa = S("aa", ("ARRAY", INT, ("ARRAY", INT, BOOL)))
    US = ("CUSTOM", "U")
    e1, e2 = S("e1", US), S("e2", US)

    def L(vv, so):
        return ("lit", vv, so)

    def f(t):
        return ("fun", "f", INT, (INT,), t)

    def p2(t1, t2):
        return ("fun", "p", BOOL, (INT, REAL), t1, t2)

    def h(t):
        return ("fun", "h", US, (US,), t)
    from fractions import Fraction as F
    o = ("Or", a, ("LT", ("Plus", x, L(3, INT)), y))
    sh = []
    # Boolean structure, sharing
    sh += [("And", a, b), ("Or", a, b, c), ("Not", a), ("Implies", a, b), ("Iff", a, b), ("Ite", a, b, c),
           ("And", a, o, ("Not", o)), ("Iff", ("And", a, b), ("And", a, b)), ("LT", ("Ite", ("LT", x, y), x, y), z),
           ("And", L(True, BOOL), a), ("Or", L(False, BOOL), a)]
    # arithmetic and constants
    sh += [("LT", x, y), ("LE", ("Plus", x, y, z), z), ("Equals", ("Minus", x, y), z), ("Equals", ("Times", L(2, INT), x), y),
           ("Equals", ("Times", x, y), z), ("LT", L(-3, INT), x), ("Equals", x, L(0, INT)), ("LE", r, L(F(1, 3), REAL)),
           ("LT", L(F(-5, 2), REAL), r), ("Equals", r, L(F(2), REAL)), ("Equals", ("Div", r, L(F(2), REAL)), s_), ("Equals", ("Div", r, s_), r),
           ("LT", ("ToReal", x), r), ("Equals", ("Plus", r, ("ToReal", x)), s_), ("LE", ("Pow", r, L(F(2), REAL)), s_),
           ("Equals", ("Plus", x, L(-1, INT)), ("Times", L(-2, INT), y)), ("Equals", ("Ite", a, x, y), z),
           ("LT", L(12345678901234567890, INT), x)]
    # bit-vectors: every operator
    for ctor in ("BVAnd", "BVOr", "BVXor", "BVAdd", "BVSub", "BVMul", "BVUDiv", "BVURem", "BVSDiv", "BVSRem", "BVLShl",
                 "BVLShr", "BVAShr"):
        sh.append(("Equals", (ctor, u, v), u))
    for ctor in ("BVULT", "BVULE", "BVSLT", "BVSLE"):
        sh.append((ctor, u, v))
    sh += [("Equals", ("BVNot", u), v), ("Equals", ("BVNeg", u), v), ("Equals", ("BVConcat", u, v), S("w8", B8)),
           ("Equals", ("BVExtract", u, 1, 2), ("BVExtract", v, 0, 1)), ("Equals", ("BVExtract", S("w8", B8), 0, 7), S("w8", B8)),
           ("Equals", ("BVRol", u, 1), v), ("Equals", ("BVRor", u, 3), v), ("Equals", ("BVZExt", u, 4), S("w8", B8)),
           ("Equals", ("BVSExt", u, 4), S("w8", B8)), ("Equals", ("BVComp", u, v), S("o1", B1)),
           ("Equals", ("BVToNatural", u), x), ("Equals", u, L(5, B4)), ("Equals", S("w8", B8), L(255, B8)),
           ("Equals", S("o1", B1), L(0, B1)), ("Equals", S("n9", ("BV", 9)), L(5, ("BV", 9)))]
    # strings
    sh += [("Equals", ("StrLength", st), x), ("Equals", ("StrConcat", st, tt, L("x", ("STRING",))), st), ("StrContains", st, tt),
           ("Equals", ("StrIndexOf", st, tt, x), y), ("Equals", ("StrReplace", st, tt, st), tt),
           ("Equals", ("StrSubstr", st, x, y), tt), ("StrPrefixOf", st, tt), ("StrSuffixOf", st, tt),
           ("Equals", ("StrToInt", st), x), ("Equals", ("IntToStr", x), st), ("Equals", ("StrCharAt", st, x), tt),
           ("Equals", st, L('a"b', ("STRING",))), ("Equals", st, L("", ("STRING",))), ("Equals", st, L("semi;colon (paren", ("STRING",))),
           ("Equals", st, L("line1\r\nline2", ("STRING",))), ("Equals", st, L("tab\there | bar", ("STRING",))),
           ("And", S("cr\rname"), ("Or", S("cr\rname"), S("crname"))), ("And", S("nl\nname"), ("Not", S("nlname")))]
    # boundary payloads: rotation by the full width and by 0, characters outside ASCII / outside the BMP, numerals
    # longer than the 4000-odd digits Python converts without being asked twice
    sh += [("Equals", ("BVRol", u, 4), v), ("Equals", ("BVRor", u, 4), v), ("Equals", ("BVRol", u, 0), ("BVRor", v, 0)),
           ("Equals", ("BVRol", S("o1", B1), 1), S("o1", B1)),
           ("Equals", st, L("a\U0001F600b", ("STRING",))), ("Equals", st, L("\u00e9t\u00e9 \u2603", ("STRING",))),
           ("Equals", ("StrLength", L("\U0001F600\U00010000", ("STRING",))), x), ("Equals", st, L("bell\x07 del\x7f", ("STRING",))),
           ("LT", L(3 * 10 ** 4100 + 7, INT), x), ("LT", L(-(10 ** 4000) - 1, INT), x),
           ("LE", r, L(F(10 ** 4050 + 1, 3), REAL))]
    # arrays, functions, custom sorts
    sh += [("Equals", ("Select", arr, x), y), ("Equals", ("Store", arr, x, y), arr), ("Equals", ("Select", abv, u), S("w8", B8)),
           ("Select", ("Select", aa, x), y), ("Equals", ("Array", ("type", INT), L(0, INT)), arr),
           ("Equals", ("Store", ("Array", ("type", INT), L(7, INT)), L(1, INT), L(2, INT)), arr),
           ("Equals", f(f(x)), y), p2(x, r), ("And", p2(f(x), L(F(1, 2), REAL)), ("Not", p2(y, r))),
           ("Equals", e1, e2), ("Equals", h(e1), e2), ("Not", ("Equals", h(h(e1)), e1)),
           # a sort that occurs only in the signature of an inner application
           ("LT", f(("fun", "hu", INT, (US,), ("fun", "mk", US, (INT,), x))), y),
           p2(("fun", "hv", INT, (("CUSTOM", "V"),), S("v0", ("CUSTOM", "V"))), r)]
    # quantifiers
    qa, qx = [("a", BOOL)], [("x", INT)]
    sh += [("forall", qa, ("Or", a, b)), ("exists", qx, ("LT", x, y)), ("And", ("LT", x, y), ("exists", qx, ("LT", y, x))),
           ("forall", qx, ("exists", [("y", INT)], ("LE", x, y))), ("forall", qa, ("exists", qa, ("Or", a, b))),
           ("forall", [("e1", US)], ("Equals", h(e1), e2)), ("forall", [("u", B4)], ("BVULE", L(0, B4), u)),
           ("Not", ("forall", qa, ("And", ("Or", a, b), ("Not", ("Or", a, b))))),
           ("And", ("forall", qx, ("LT", ("Plus", x, L(1, INT)), y)), ("LT", ("Plus", x, L(1, INT)), y))]
    # array values with symbolic contents; a user sort inside an array sort only; odd names bound by a quantifier
    US_ = ("CUSTOM", "U")
    sh += [("Equals", ("Array", ("type", INT), x), S("arr", ("ARRAY", INT, INT))),
           ("Equals", S(".def_0", INT), ("Select", ("Array", ("type", INT), ("Plus", y, L(1, INT))), L(3, INT))),
           ("Equals", S("au1", ("ARRAY", INT, US_)), S("au2", ("ARRAY", INT, US_))),
           ("Equals", S("an1", ("ARRAY", INT, ("ARRAY", US_, ("CUSTOM", "T")))), S("an2", ("ARRAY", INT, ("ARRAY", US_, ("CUSTOM", "T"))))),
           ("forall", [("x'", INT), ("idx[0]", INT)], ("LT", S("x'", INT), S("idx[0]", INT))),
           ("And", ("exists", [("a b", BOOL)], ("Or", S("a b"), a)), ("forall", [("x", INT), ("y", INT)], ("LT", L(0, INT), x)))]
    # array values with explicit entries (constant and term-valued), over Int and over a bit-vector index sort
    sh += [("Equals", ("Array", ("type", INT), L(0, INT), ("dict", (L(1, INT), L(5, INT)), (L(2, INT), L(7, INT)))), arr),
           ("Equals", ("Select", ("Array", ("type", INT), x, ("dict", (L(3, INT), y), (L(-1, INT), ("Plus", x, y)))), z), x),
           ("Equals", ("Array", ("type", B4), L(0, B8), ("dict", (L(1, B4), L(255, B8)), (L(15, B4), S("w8", B8)))), abv),
           ("Select", ("Array", ("type", INT), L(False, BOOL), ("dict", (L(10, INT), a), (L(2, INT), ("Or", a, b)))), x)]
    # a quantifier nested inside a quantifier of the same kind (body refers to the outer variable after the inner binder)
    sh += [("forall", [("a", BOOL)], ("Or", a, ("forall", [("b", BOOL)], ("Or", a, b)))),
           ("exists", [("x", INT)], ("And", ("exists", [("y", INT)], ("LT", x, y)), ("LT", x, z))),
           ("forall", [("a", BOOL)], ("And", ("forall", [("b", BOOL), ("c", BOOL)], ("Or", a, b, c)), ("forall", [("c", BOOL)], ("Or", c, a)), a)),
           ("exists", [("x", INT), ("y", INT)], ("exists", [("x", INT)], ("exists", [("z", INT)], ("LT", ("Plus", x, y), z))))]
    # a quantifier that occurs only inside a theory atom / as the argument of an application
    sh += [("LT", ("Ite", ("forall", [("y", INT)], ("LT", y, ("Plus", y, x))), L(1, INT), L(0, INT)), z),
           ("Equals", ("fun", "g", INT, (BOOL,), ("exists", [("x", INT)], ("LT", x, y))), z),
           ("BVULT", ("Ite", ("forall", [("u", B4)], ("BVULE", L(0, B4), u)), v, L(1, B4)), v)]
    # sorts that occur on bound variables only, or only as the index sort of a constant array
    SB, SC, PB_ = ("CUSTOM", "Sb"), ("CUSTOM", "Sc"), ("CUSTOM", "PairB", (INT, ("CUSTOM", "Sb")))
    sh += [("exists", [("xb", SB), ("yb", SB)], ("Not", ("Equals", S("xb", SB), S("yb", SB)))),
           ("forall", [("pb", PB_)], ("exists", [("qb", PB_)], ("Equals", S("pb", PB_), S("qb", PB_)))),
           ("Not", ("Equals", ("Array", ("type", SC), L(0, INT)), ("Array", ("type", SC), L(1, INT)))),
           ("And", a, ("forall", [("zc", SC)], ("Equals", ("Select", ("Array", ("type", SC), x), S("zc", SC)), x)))]
    # vacuous binders: the sort of the bound variable occurs nowhere else
    VS, VT = ("CUSTOM", "Vs"), ("CUSTOM", "Vt")
    sh += [("forall", [("vs", VS)], a), ("Or", b, ("exists", [("va", ("ARRAY", INT, VT))], ("LT", x, y))),
           ("forall", [("vp", ("CUSTOM", "Vp", (INT, ("CUSTOM", "Vq"))))], ("exists", [("vb", ("BV", 7))], a))]
    # binders whose variable order is not the order in which the variables were created
    sh += [("And", ("LT", x, y), ("forall", [("y", INT), ("x", INT)], ("LT", ("Plus", x, y), L(3, INT)))),
           ("Or", ("LT", x, ("Plus", y, S("z", INT))), ("exists", [("z", INT), ("x", INT), ("y", INT)], ("LT", ("Plus", x, y), S("z", INT)))),
           ("And", ("Or", a, b), ("forall", [("b", BOOL), ("a", BOOL)], ("Or", a, ("Not", b))))]
    # names that need quoting or collide with the printer's own names
    odd = ODD_NAMES
    for nm in odd:
        sh.append(("And", S(nm), ("Or", S(nm), a), ("Not", ("Or", S(nm), a))))
    d0, d1, d2 = S(".def_0"), S(".def_1"), S(".def_2")
    sh += [("Or", ("And", d0, d1), d1), ("Or", ("And", d1, d2), d2, ("Not", ("And", d1, d2))),
           ("And", ("Or", d0, d1, d2), ("Not", ("Or", d0, d1, d2)), ("Iff", d2, ("Or", d0, d1, d2)), ("Iff", d1, ("Iff", d2, ("Or", d0, d1, d2)))),
           ("forall", [(".def_0", BOOL)], ("Or", ("And", d0, d1), ("Not", ("And", d0, d1))))]
    PS = ("CUSTOM", "my sort", (INT,))
    PS2 = ("CUSTOM", "Pair", (INT, ("CUSTOM", "my sort", (BOOL,))))
    sh += [("Equals", S("y1", PS), S("y2", PS)), ("Equals", S("q1", PS2), S("q2", PS2)),
           ("forall", [("y1", PS)], ("Equals", S("y1", PS), S("y2", PS))),
           ("Equals", ("Select", S("ap", ("ARRAY", INT, PS)), x), S("y2", PS)),
           ("Equals", ("fun", "mk", PS, (INT,), x), S("y2", PS))]
    # two instances of one parametric sort: the sort is declared once
    PI, PB = ("CUSTOM", "Pair1", (INT,)), ("CUSTOM", "Pair1", (BOOL,))
    sh.append(("And", ("Equals", S("pi1", PI), S("pi2", PI)), ("Equals", S("pb1", PB), S("pb2", PB))))
    sh.append(("Equals", ("Select", S("app", ("ARRAY", PI, PB)), S("pi1", PI)), S("pb1", PB)))
    sh.append(("Equals", S("my int", INT), ("Plus", S(".def_0", INT), S(".def_0", INT))))
    sh.append(("Equals", S("odd e", ("CUSTOM", "My Sort")), S("e3", ("CUSTOM", "My Sort"))))
    sh.append(("Equals", ("fun", "odd f", INT, (INT,), x), ("fun", "odd f", INT, (INT,), ("fun", "odd f", INT, (INT,), x))))
    return [Shape(t) for t in sh]


ODD_NAMES = ["a b", "let", "and", "1x", "x.y", "A#b", "par(en", "semi;c", ".def_0", ".def_1", "__x0", "true", "Int", "_", "!", "as",
             "forall", "exists", "a-b", "p|q", "x+y", "ToReal", "Array", "BV", "True", "xor", "Real", "push", "pop", "assert", "exit",
             "caf\u00e9", "x\u00b2", "n\u03b1", "\u00e9t\u00e9"]


# ------------------------------------------------------------------------------------------------ export + round trip
def _export_job(shape_t):
    """Both forms (tree, let-DAG) of one skeleton in one interpretation: the script is built once.
    A job ('after-hr', skeleton) prints the formula in the human-readable syntax first."""
    hr_first = isinstance(shape_t, tuple) and len(shape_t) == 2 and shape_t[0] == "after-hr"
    if hr_first:
        shape_t = shape_t[1]
    shape = Shape(shape_t)

    def call(w, it, f):
        if hr_first:
            it.call(it.getattr(f, "serialize"), [])
            # ... and the sorts of its symbols were asked for their text in both styles (messages, other printers)
            for sy in sorted(w.free_symbols(f), key=lambda n: w.npayload(n)[0]):
                ty = w.npayload(sy)[1]
                for style in (False, True):
                    try:
                        it.call(it.getattr(ty, "as_smtlib"), [], {"funstyle": style})
                    except (AbsRaise, Unsupported):
                        pass
                w.to_str(it, ty)
        mod = w.repo.modules["pysmt.smtlib.script"]
        mk = it.module_global(mod, "smtlibscript_from_formula")
        try:
            script = it.call(mk, [f])
        except AbsRaise as ex:
            if ex.cls_name != "NoLogicAvailableError":
                raise
            # pySMT has no logic for this combination of features and declines to label the script: the caller
            # names the logic (the text produced is decided all the same)
            script = it.call(mk, [f], {"logic": "ALL"})
        to_smtlib = it.module_global(w.repo.modules["pysmt.smtlib.printers"], "to_smtlib")
        outs = []
        for dag in (False, True):
            sio = it.call(ExtRef("io.StringIO"), [])
            it.call(it.getattr(script, "serialize"), [sio], {"daggify": dag})
            text = it.call(it.getattr(sio, "getvalue"), [])
            ftext = it.call(to_smtlib, [f], {"daggify": dag})
            back = None
            try:
                ps = w.new_walker(PARSER, w.env)
                sc2 = it.call(it.getattr(ps, "get_script"), [it.call(ExtRef("io.StringIO"), [text])])
                back = ("ok", it.call(it.getattr(sc2, "get_last_formula"), []))
            except AbsRaise as ex:
                back = ("raise", "%s%s" % (ex.cls_name, proc._args(ex)))
            except Unsupported as ex:
                back = ("unsupported", str(ex))
            outs.append((text, ftext, back))
        # the same export after the formula went through the other concrete syntax: the text must not change
        try:
            it.call(it.getattr(f, "serialize"), [])
            for i, dag in enumerate((False, True)):
                sio = it.call(ExtRef("io.StringIO"), [])
                it.call(it.getattr(script, "serialize"), [sio], {"daggify": dag})
                again = it.call(it.getattr(sio, "getvalue"), [])
                fagain = it.call(to_smtlib, [f], {"daggify": dag})
                if again != outs[i][0] or fagain != outs[i][1]:
                    outs[i] = outs[i] + (("after a human-readable print of the same formula the export reads %r"
                                          % ((again if again != outs[i][0] else fagain)[-160:],)),)
        except (AbsRaise, Unsupported):
            pass
        return outs

    def post(w, f, val, facts):
        return proc.ProcResult(shape, "valid", (w, f, val))
    res = proc.run_proc(shape, call, post=post, services="full", interp_kwargs=BIG, max_paths=8)
    results = []
    if len(res) != 1 or res[0].kind != "valid":
        r = res[0]
        for dag in (False, True):
            out = {"shape": repr(shape) + (" (after a human-readable print)" if hr_first else ""), "dag": dag, "c07": None,
                   "c09": None, "text": None, "notes": [], "ops": []}
            if r.kind == "raises":
                out["c07"] = ("raises", str(r.detail))
            else:
                out["c07"] = ("unsupported", "%s %s" % (r.kind, str(r.detail)[:200]))
            out["c09"] = ("unsupported", "export not interpreted")
            results.append(out)
        return results
    w, f, vals = res[0].detail
    for dag, val in zip((False, True), vals):
        results.append(_export_eval(shape, shape_t, dag, w, f, val))
    if hr_first:
        for r_ in results:
            r_["shape"] += " (after a human-readable print)"
    return results


def _export_eval(shape, shape_t, dag, w, f, val):
    out = {"shape": repr(shape), "dag": dag, "c07": None, "c09": None, "text": None, "notes": [], "ops": []}
    text, ftext, back = val[:3]
    history_note = val[3] if len(val) > 3 else None
    out["text"] = text if len(text) < 600 else text[:600] + "..."
    seen, stack = set(), [f]
    while stack:
        nn = stack.pop()
        seen.add(w.opname(nn))
        stack.extend(w.nargs(nn))
    out["ops"] = sorted(seen)
    try:
        want = textsem.from_node(w, f)
    except textsem.NotConcrete as e:
        out["c07"] = out["c09"] = ("unsupported", str(e))
        return out
    # ---- C07: reference reading of the exported script
    try:
        ref = refsmt.read_script(text)
        live = ref.live_assertions()
        if len(live) != 1:
            out["c07"] = ("invalid", "the exported script asserts %d terms" % len(live))
        else:
            ok, why = textsem.equivalent(live[0], want)
            if ok is True:
                out["c07"] = ("valid", why)
            elif ok is False:
                out["c07"] = ("invalid", "the asserted term %s does not denote the formula: %s" % (refsmt.term_str(live[0]), why))
            else:
                out["c07"] = ("unsupported", why)
        # the logic the script names must admit what it asserts: no quantifier under a QF_ logic
        if out["c07"][0] == "valid" and isinstance(ref.logic, str) and ref.logic.startswith("QF_") and _has_binder(live[0]):
            out["c07"] = ("invalid", "the script sets the quantifier-free logic %s and asserts a quantified term" % ref.logic)
        # formula-only text, read in the declarations of the script
        if out["c07"][0] == "valid":
            try:
                sx = refsmt.read_all(ftext)
                if len(sx) != 1:
                    out["c07"] = ("invalid", "to_smtlib writes %d s-expressions" % len(sx))
                else:
                    t2, so2 = refsmt.Reader(ref).term(sx[0], {})
                    ok, why = textsem.equivalent(t2, want)
                    if ok is False:
                        out["c07"] = ("invalid", "to_smtlib text %s does not denote the formula: %s" % (ftext[:120], why))
            except refsmt.SmtError as e:
                if not e.unsupported:
                    out["c07"] = ("invalid", "to_smtlib text is not well-formed: %s [%s]" % (e, ftext[:160]))
    except refsmt.SmtError as e:
        if e.unsupported:
            out["c07"] = ("unsupported", str(e))
        else:
            out["c07"] = ("invalid", "the exported script is not well-formed SMT-LIB: %s" % e)
    # ---- C09: round trip through the interpreted parser
    kind, g = back
    if kind == "raise":
        out["c09"] = ("invalid", "pySMT's parser rejects pySMT's own output: %s" % g)
    elif kind == "unsupported":
        out["c09"] = ("unsupported", g)
    elif g is f:
        out["c09"] = ("valid", "same node")
    elif w.is_node(g):
        try:
            gt = textsem.from_node(w, g)
            if textsem.rt_equal(gt, want) and "ARRAY_VALUE" in repr(shape_t) + repr(want):
                out["c09"] = ("valid", "equivalent store chain")
            else:
                out["c09"] = ("invalid", "parse(print(f)) is %s, not f" % sc.node_str(w, g))
        except textsem.NotConcrete as e:
            out["c09"] = ("unsupported", str(e))
    else:
        out["c09"] = ("invalid", "get_last_formula returned %r" % (g,))
    if history_note and out["c09"][0] == "valid":
        out["c09"] = ("invalid", history_note)
    return out


def _has_binder(t):
    """reference terms are (op, args, payload) tuples"""
    stack = [t]
    while stack:
        x = stack.pop()
        if not (isinstance(x, tuple) and len(x) == 3 and isinstance(x[0], str)):
            continue
        if x[0] in ("FORALL", "EXISTS"):
            return True
        stack.extend(x[1] or ())
    return False


_EXPORT = {}


# Names the property excludes from SMT-LIB export ("predefined theory symbols and literal spellings, which SMT-LIB
# itself cannot declare"): kept in the menu of the human-readable round trip, not exported to SMT-LIB.
SMT_UNDECLARABLE = {"and", "true", "xor"}
# A name no SMT-LIB symbol can spell (known finding F-C07-1): decided once, not repeated in every context.
SMT_UNSPELLABLE = {"p|q"}


def _mentions(t, names):
    if isinstance(t, tuple):
        if t and t[0] == "sym" and t[1] in names:
            return True
        return any(_mentions(x, names) for x in t[1:])
    if isinstance(t, list):
        return any(_mentions(x, names) for x in t)
    return False


def export_results(repo, tier="quick"):
    key = (repo.root, tier)
    if key not in _EXPORT:
        shapes = [sh for sh in export_shapes() if not _mentions(sh.t, SMT_UNDECLARABLE)]
        if tier == "thorough":
            once = [sh for sh in shapes if _mentions(sh.t, SMT_UNSPELLABLE)]
            shapes = proc.in_contexts([sh for sh in shapes if not _mentions(sh.t, SMT_UNSPELLABLE)]) + once
        jobs = [sh.t for sh in shapes]
        # names both concrete syntaxes have to quote: also exported after a human-readable print
        jobs += [("after-hr", sh.t) for sh in export_shapes()
                 if (_mentions(sh.t, set(ODD_NAMES)) or "'fun'" in repr(sh.t) or "ARRAY" in repr(sh.t) or "CUSTOM" in repr(sh.t))
                 and not _mentions(sh.t, SMT_UNDECLARABLE | SMT_UNSPELLABLE)]
        first = _export_job(jobs[0])          # warms the per-process tables before the pool forks
        _EXPORT[key] = first + [r for rs in parallel_map(_export_job, jobs[1:]) for r in rs]
    return _EXPORT[key]


# ------------------------------------------------------------------------------------------------ import corpus
def import_corpus():
    D = "(declare-fun a () Bool)(declare-fun b () Bool)(declare-fun c () Bool)" \
        "(declare-fun x () Int)(declare-fun y () Int)(declare-fun z () Int)"
    R_ = "(declare-fun r () Real)(declare-fun s () Real)"
    BV = "(declare-fun u () (_ BitVec 4))(declare-fun v () (_ BitVec 4))(declare-const w8 (_ BitVec 8))"
    ST = "(declare-fun st () String)(declare-fun tt () String)"
    AR = "(declare-fun arr () (Array Int Int))(declare-fun abv () (Array (_ BitVec 4) (_ BitVec 8)))"
    UF = "(declare-sort U 0)(declare-fun e1 () U)(declare-fun e2 () U)(declare-fun h (U) U)" \
         "(declare-fun f (Int) Int)(declare-fun p (Int Real) Bool)"
    c = []

    def add(name, text):
        c.append((name, text))
    # binders
    add("let-simultaneous", D + "(assert (let ((x y) (y x)) (< x y)))")
    add("let-simultaneous-2", D + "(assert (let ((x (+ x 1)) (z x)) (= z (- x 1))))")
    add("let-nested-shadow", D + "(assert (let ((x 1)) (let ((x (+ x 1)) (y x)) (= (+ x y) 3))))")
    add("let-shadows-declared", D + "(assert (let ((a (or a b))) (and a (let ((a (not a))) (or a c)))))")
    add("let-under-quantifier", D + "(assert (forall ((x Int)) (let ((y (+ x 1))) (exists ((x Int)) (< x y)))))")
    add("let-captures-outer", D + "(assert (let ((t (+ x 1))) (forall ((x Int)) (< x t))))")
    add("quantifier-scope", D + "(assert (and (forall ((a Bool)) (or a b)) a))")
    add("quantifier-nested-shadow", D + "(assert (exists ((a Bool)) (forall ((a Bool) (b Bool)) (or a b c))))")
    add("quantifier-many-vars", D + "(assert (forall ((p Bool) (q Bool)) (exists ((t Bool)) (= t (and p q)))))")
    add("define-fun-scope", D + "(define-fun g ((x Int) (a Bool)) Int (ite a x y))(assert (= (g y b) (g x a)))")
    add("define-fun-param-not-leaking", D + "(define-fun g ((y Int)) Int (+ y 1))(assert (< (g x) y))")
    add("define-fun-constant", D + "(define-fun k () Int (+ x 1))(assert (< k y))")
    add("define-fun-scoped-redefinition", D + "(push 1)(define-fun g ((t Int)) Int (+ t 1))(assert (> (g x) 0))(pop 1)"
        "(define-fun g ((t Int)) Int (- t 1))(assert (> (g x) 0))(assert (> (g (g y)) 20))")
    add("define-fun-scoped-redefinition-arity", D + "(push 1)(define-fun g ((t Int)) Int (+ t 1))(assert (> (g x) 0))(pop 1)"
        "(define-fun g ((t Int) (s Int)) Int (- t s))(assert (> (g x y) 0))")
    add("define-fun-constant-redefinition", D + "(push 1)(define-fun k () Int 10)(assert (< x k))(pop 1)(define-fun k () Int 20)(assert (< y k))")
    add("redeclare-after-pop", "(declare-fun a () Bool)(push 1)(declare-fun k () Int)(assert (< k 1))(pop 1)(declare-fun k () Int)(assert (and a (< k 2)))")
    add("redeclare-sort-after-pop", "(push 1)(declare-sort U2 0)(declare-fun e () U2)(assert (= e e))(pop 1)(declare-sort U2 0)(declare-fun e () U2)"
        "(assert (not (= e e)))")
    add("redeclare-const-after-pop-2", "(declare-fun a () Bool)(push 1)(declare-const k Int)(push 1)(assert (< k 1))(pop 1)(assert (< k 3))(pop 1)(declare-const k Int)(assert (< k 2))")
    # characters that are white space between tokens are content inside string literals and quoted symbols
    add("cr-in-string", ST + '(assert (= st "a\rb"))(assert (= (str.len "a\rb") 3))')
    add("newline-tab-in-string", ST + '(assert (= st "a\nb\tc"))(assert (= (str.len "a\n\r\tb") 5))')
    add("cr-in-quoted-symbol", "(declare-fun |a\rb| () Bool)(declare-fun ab () Bool)(assert (and |a\rb| (not ab)))")
    add("newline-in-quoted-symbol", "(declare-fun |a\nb| () Bool)(declare-fun |a b| () Bool)(declare-fun ab () Bool)(assert (and |a\nb| (not ab) (not |a b|)))")
    add("define-fun-nested", D + "(define-fun g ((t Int)) Int (+ t 1))(define-fun g2 ((t Int)) Int (g (g t)))(assert (= (g2 x) y))")
    add("define-fun-bool", D + "(define-fun both ((p Bool) (q Bool)) Bool (and p q))(assert (both a (both b c)))")
    add("define-fun-quoted-params", D + "(define-fun g ((|a b| Int) (|c d| Bool)) Int (ite |c d| |a b| x))(assert (= (g y a) z))")
    add("define-fun-used-twice", D + "(define-fun inc ((t Int)) Int (+ t 1))(assert (< (inc x) (inc (inc y))))(assert (= (inc z) 0))")
    # quantifiers inside the body of a definition with parameters: the body is rewritten when the definition is applied
    add("define-fun-exists-body", D + "(define-fun below ((t Int)) Bool (exists ((s Int)) (and (< s t) (< x s))))(assert (below y))(assert (not (below x)))")
    add("define-fun-forall-body", D + "(define-fun cap ((t Int) (p Bool)) Bool (forall ((s Int)) (or p (<= s t) (exists ((r Int)) (< r s)))))(assert (cap y a))")
    add("define-fun-quantifier-shadows-param", D + "(define-fun g ((t Int)) Bool (and (< t 0) (exists ((t Int)) (> t x))))(assert (g y))")
    add("define-fun-bool-quantifier", D + "(define-fun ex ((p Bool)) Bool (exists ((q Bool)) (and (or p q) (not (and p q)))))(assert (ex a))(assert (ex (and a b)))")
    add("named-term", D + "(assert (! (or a b) :named n1))(assert (=> n1 c))")
    add("annotation-other", D + "(assert (! (< x y) :weight 3))")
    # numerals by logic
    add("numeral-int-logic", "(set-logic QF_LIA)" + D + "(assert (< x 3))")
    add("numeral-real-logic", "(set-logic QF_LRA)" + R_ + "(assert (< r 3))")
    add("numeral-real-logic-2", "(set-logic QF_LRA)" + R_ + "(assert (= (+ r 1) (* 2 s)))")
    add("decimal-mixed-logic", "(set-logic QF_LIRA)" + D + R_ + "(assert (< (to_real x) 3.5))")
    add("numeral-no-logic", D + "(assert (< x 3))")
    add("decimal", R_ + "(assert (= r 0.25))")
    add("decimal-integer-valued", R_ + "(assert (= r 2.0))")
    add("rational", R_ + "(assert (= r (/ 1 3)))")
    add("negative-literal", D + R_ + "(assert (and (= x (- 5)) (= r (- 2.5)) (= s (- (/ 1 3)))))")
    add("unary-minus-term", D + "(assert (= (- x) y))")
    add("nary-minus", D + "(assert (= (- x y z) 0))")
    add("nary-plus-times", D + "(assert (= (+ x y z 1) (* 2 x 3)))")
    add("chain-equals", D + "(assert (= x y z))")
    add("chain-less", D + "(assert (< x y z))")
    add("distinct-3", D + "(assert (distinct x y z))")
    add("distinct-bool", D + "(assert (distinct a b))")
    add("implies-right-assoc", D + "(assert (=> a b c))")
    add("xor", D + "(assert (xor a b))")
    add("ge-gt", D + "(assert (and (>= x y) (> y z)))")
    add("ite-term", D + "(assert (= (ite a x y) z))")
    add("ite-bool", D + "(assert (ite a b c))")
    add("equals-bool", D + "(assert (= a (and b c)))")
    add("to-real", D + R_ + "(assert (= (to_real x) r))")
    add("real-division", R_ + "(assert (= (/ r 2.0) s))")
    # bit-vectors
    add("bv-literals", BV + "(assert (and (= u #b0101) (= w8 #xfF) (= v (_ bv5 4)) (= w8 (_ bv200 8))))")
    add("bv-extract", BV + "(assert (= ((_ extract 2 1) u) ((_ extract 1 0) v)))")
    add("bv-extract-full", BV + "(assert (= ((_ extract 7 0) w8) w8))")
    add("bv-extend", BV + "(assert (and (= ((_ zero_extend 4) u) w8) (= ((_ sign_extend 4) v) w8)))")
    add("bv-extend-zero", BV + "(assert (and (= ((_ zero_extend 0) u) v) (= ((_ sign_extend 0) v) u)))")
    add("bv-rotate", BV + "(assert (and (= ((_ rotate_left 1) u) v) (= ((_ rotate_right 3) u) v) (= ((_ rotate_left 0) u) v)))")
    add("bv-rotate-beyond-width", BV + "(assert (= ((_ rotate_left 5) u) v))")
    add("bv-repeat", BV + "(assert (= ((_ repeat 2) u) w8))")
    add("bv-concat", BV + "(assert (= (concat u v) w8))")
    add("bv-arith", BV + "(assert (= (bvadd u (bvmul v u)) (bvsub (bvneg u) (bvnot v))))")
    add("bv-div", BV + "(assert (and (= (bvudiv u v) (bvurem u v)) (= (bvsdiv u v) (bvsrem u v)) (= (bvsmod u v) u)))")
    add("bv-shift", BV + "(assert (and (= (bvshl u v) (bvlshr u v)) (= (bvashr u v) u)))")
    add("quoted-numeral-symbol", "(declare-fun |1| () Int)(declare-fun x () Int)(assert (= x (+ 1 |1|)))")
    add("quoted-numeral-symbol-unused", "(declare-fun x () Int)(declare-fun |2| () Int)(assert (= x (+ 1 2)))")
    add("quoted-bv-literal-symbol", "(declare-fun |#b01| () Bool)(declare-fun u2 () (_ BitVec 2))(assert (or |#b01| (= u2 #b01)))")
    add("quoted-string-like-symbol", "(declare-fun |abc| () String)(declare-fun st () String)(assert (= st (str.++ abc \"abc\")))")
    add("let-shadows-definition", D + "(define-fun d () Bool (not a))(assert (let ((d (or a b))) (and d a)))(assert d)")
    add("quantifier-shadows-definition", D + "(define-fun q ((p Int)) Int (+ p 1))(define-fun k () Int 7)"
        "(assert (forall ((k Int)) (< k (q k))))(assert (< k 9))")
    add("definition-named-like-let-variable", D + "(define-fun .def_1 () Bool (not a))(assert (and (or a b) (not a)))(assert .def_1)")
    add("shared-across-asserts", D + "(assert (and (or a b) (< (+ x y) z)))(assert (or (or a b) (< (+ x y) 3)))"
        "(push 1)(assert (not (< (+ x y) z)))(check-sat)")
    add("bv-logic", BV + "(assert (= (bvand u (bvor v (bvxor u v))) (bvnand u (bvnor v (bvxnor u v)))))")
    add("bv-rel-unsigned", BV + "(assert (and (bvult u v) (bvule u v) (bvugt u v) (bvuge u v)))")
    add("bv-rel-signed", BV + "(assert (and (bvslt u v) (bvsle u v) (bvsgt u v) (bvsge u v)))")
    add("bv-comp", BV + "(assert (= (bvcomp u v) #b1))")
    add("bv2nat", BV + D + "(assert (= (bv2nat u) x))")
    # strings
    add("str-literals", ST + "(assert (and (= st \"a\"\"b\") (= tt \"\") (distinct st \"x;y (z\")))")
    add("str-ops", ST + D + "(assert (and (= (str.len st) x) (= (str.++ st tt \"x\") st) (str.contains st tt) "
                            "(= (str.indexof st tt x) y) (= (str.replace st tt st) tt) (= (str.substr st x y) tt)))")
    add("str-ops-2", ST + D + "(assert (and (str.prefixof st tt) (str.suffixof st tt) (= (str.at st x) tt) "
                              "(= (str.to.int st) x) (= (int.to.str x) st)))")
    add("str-ops-new-names", ST + D + "(assert (and (= (str.to_int st) x) (= (str.from_int x) st)))")
    # arrays, UF, sorts
    add("array-select-store", AR + D + "(assert (= (select (store arr x y) z) y))")
    add("array-bv", AR + BV + "(assert (= (select abv u) w8))")
    add("array-const", AR + "(assert (= arr ((as const (Array Int Int)) 0)))")
    add("uf", UF + D + R_ + "(assert (and (= (f (f x)) y) (p (f x) r) (= (h (h e1)) e2)))")
    add("declare-const", "(declare-const k Int)(declare-const q Bool)(assert (=> q (< k 0)))")
    # lexical forms
    add("quoted-symbols", "(declare-fun |a b| () Bool)(declare-fun |x| () Int)(declare-fun y () Int)(assert (and |a b| (< x |y|)))")
    add("quoted-reserved", "(declare-fun |let| () Bool)(declare-fun |forall| () Int)(assert (and |let| (< |forall| 1)))")
    add("comments", D + "; a comment ( with parens \"and quotes\n(assert ; trailing\n (and a ; x\n b))")
    add("whitespace", D.replace(")(", ")\n\t (") + "(assert\n(and\ta\n  b))")
    add("crlf", D + "(assert\r\n(and a\r\nb))")
    add("symbol-chars", "(declare-fun a.b_c$1 () Bool)(declare-fun ~!@$%^&*_-+=<>.?/ () Bool)(assert (or a.b_c$1 ~!@$%^&*_-+=<>.?/))")
    # assertion stack
    add("push-pop", D + "(assert a)(push 1)(assert b)(push 1)(assert c)(pop 1)(assert (< x y))(pop 1)(assert (< y z))")
    add("push-pop-n", D + "(assert a)(push 2)(assert b)(pop 2)(push 1)(assert c)")
    add("push-declare", D + "(push 1)(declare-fun t () Int)(assert (< t x))(pop 1)(assert a)")
    add("push-pop-zero", D + "(assert a)(push 0)(assert b)(pop 0)(assert c)")
    add("pop-zero-inside-level", D + "(assert a)(push 1)(assert b)(pop 0)(assert c)(check-sat)")
    add("pop-zero-inside-two-levels", D + "(push 2)(assert a)(pop 0)(assert b)(pop 1)(assert c)(push 0)(assert (< x y))")
    add("push-pop-default", D + "(assert a)(push)(assert b)(pop)(assert c)")
    add("push-3-pop-3", D + "(assert a)(push 3)(assert b)(pop 2)(assert c)(pop 1)(assert (< x y))")
    add("two-assertions", D + "(assert a)(assert (or b c))(check-sat)")
    # optimisation commands (pySMT extension of the command set)
    add("omt-objectives", D + "(maximize x)(minimize (+ x y))(check-sat)(get-objectives)")
    add("omt-signed", BV + "(maximize u)(maximize u :signed)(minimize v :id goal1)(check-sat)")
    add("omt-soft", D + "(assert-soft a :weight 2 :id g)(assert-soft (not a) :id g)(assert-soft b)(check-sat)")
    add("omt-stack", D + "(assert (< x 3))(push 1)(maximize x)(assert-soft a :id g)(pop 1)(minimize y)(check-sat)")
    add("no-assertions", D + "(check-sat)")
    return c


def reject_corpus():
    """Ill-formed texts: the standard gives them no meaning, so they must not be accepted silently."""
    D = "(declare-fun a () Bool)(declare-fun x () Int)(declare-fun y () Int)"
    c = []

    def add(name, text):
        c.append((name, text))
    add("undeclared-symbol", D + "(assert (< x q))")
    add("undeclared-function", D + "(assert (< (g x) y))")
    add("undeclared-as-string", "(declare-fun st () String)(assert (= st foo))")
    add("undeclared-bool", D + "(assert (and a q))")
    add("unknown-operator", D + "(assert (bvfoo x y))")
    add("unbalanced", D + "(assert (and a a)")
    add("extra-close", D + "(assert a))")
    add("let-unbound-rhs", D + "(assert (let ((t 1) (s t)) (< s x)))")
    add("let-body-out-of-scope", D + "(assert (and (let ((t 1)) (< t x)) (< t y)))")
    add("quantifier-var-out-of-scope", D + "(assert (and (forall ((t Int)) (< t x)) (< t y)))")
    add("define-fun-param-out-of-scope", D + "(define-fun g ((t Int)) Int (+ t 1))(assert (< t x))")
    add("define-fun-too-many-arguments", D + "(define-fun g ((t Int)) Int (+ t 1))(assert (= (g 1 2) 2))")
    add("define-fun-too-few-arguments", D + "(define-fun g ((t Int) (s Int)) Int (+ t s))(assert (= (g 1) 2))")
    add("define-fun-constant-applied", D + "(define-fun k () Int 7)(assert (= (k 1) 7))")
    add("define-fun-ill-sorted-argument", D + "(define-fun g ((t Int)) Int (+ t 1))(assert (= (g a) 2))")
    add("declared-fun-too-many-arguments", D + "(declare-fun h (Int) Int)(assert (= (h 1 2) 2))")
    add("ill-sorted-and", D + "(assert (and a x))")
    add("ill-sorted-plus", D + "(assert (< (+ x a) y))")
    add("assert-non-bool", D + "(assert (+ x y))")
    add("bv-width-mismatch", "(declare-fun u () (_ BitVec 4))(declare-fun w () (_ BitVec 8))(assert (= (bvadd u w) u))")
    add("bv-literal-overflow", "(declare-fun u () (_ BitVec 4))(assert (= u (_ bv16 4)))")
    add("extract-out-of-range", "(declare-fun u () (_ BitVec 4))(assert (= ((_ extract 4 0) u) u))")
    add("extract-reversed", "(declare-fun u () (_ BitVec 4))(assert (= ((_ extract 0 1) u) u))")
    add("redeclaration", D + "(declare-fun x () Int)(assert a)")
    add("redeclaration-other-sort", D + "(declare-fun x () Bool)(assert x)")
    add("pop-too-far", D + "(assert a)(pop 1)")
    add("use-after-pop", D + "(push 1)(declare-fun t () Int)(pop 1)(assert (< t x))")
    add("unknown-command", D + "(frobnicate a)")
    add("unknown-sort", "(declare-fun q () Foo)(assert (= q q))")
    add("wrong-arity-not", D + "(assert (not a a))")
    add("wrong-arity-ite", D + "(assert (ite a x))")
    add("unterminated-string", "(declare-fun st () String)(assert (= st \"abc))")
    add("unterminated-quoted", "(declare-fun |a b () Bool)(assert a)")
    return c


def _opt_sig(w, v):
    if w.is_node(v):
        return sc.node_str(w, v)
    return v


def _cmd_list(w, it, script):
    cmds = it.iterate(it.getattr(script, "commands"))
    out = []
    for cm in cmds:
        out.append((it.getattr(cm, "name"), it.getattr(cm, "args")))
    return out


def _judge_again(w, cmds, again):
    if again[0] == "raise":
        return ("invalid", "the re-serialised script is rejected by the parser: %s" % again[1])
    elif again[0] == "unsupported":
        return ("unsupported", again[1])
    else:
        c2 = again[2]
        n1 = [n_ for n_, _a in cmds]
        n2 = [n_ for n_, _a in c2]
        if n1 != n2:
            return ("invalid", "commands %s re-serialise to %s" % (n1, n2))
        else:
            bad = None
            for (nm, a1), (_nm2, a2) in zip(cmds, c2):
                if nm in ("maximize", "minimize", "assert-soft") and a1 and a2:
                    o1 = dict((k_, _opt_sig(w, v_)) for k_, v_ in (w.it.iterate(a1[1]) if len(a1) > 1 and a1[1] else []))
                    o2 = dict((k_, _opt_sig(w, v_)) for k_, v_ in (w.it.iterate(a2[1]) if len(a2) > 1 and a2[1] else []))
                    if a1[0] is not a2[0] or o1 != o2:
                        bad = "%s %s %s re-serialises to %s %s" % (nm, sc.node_str(w, a1[0]), o1, sc.node_str(w, a2[0]), o2)
                        break
                if nm in ("set-info", "set-option", "get-info", "get-option", "echo", "push", "pop"):
                    # attribute / keyword arguments are plain values: the reader of the re-serialised text must get them back
                    p1, p2 = list(w.it.iterate(a1)), list(w.it.iterate(a2))
                    if all(isinstance(v_, (str, int, bool)) for v_ in p1 + p2) and p1 != p2:
                        bad = "%s %r re-serialises to %s %r" % (nm, p1, nm, p2)
                        break
                if nm == "assert" and a1 and a2 and a1[0] is not a2[0]:
                    try:
                        ok, why = textsem.equivalent(textsem.from_node(w, a1[0]), textsem.from_node(w, a2[0]))
                    except textsem.NotConcrete:
                        ok = None
                    if ok is False:
                        bad = "assert %s re-serialises to %s" % (sc.node_str(w, a1[0]), sc.node_str(w, a2[0]))
                        break
            return ("invalid", bad) if bad else ("valid", "%d commands" % len(n1))

    return ("valid", "")


def _tower_text(depth):
    """An assertion over a maximally shared tower t' = (and (or t p) (or t q)), written with lets so that the text is linear"""
    lines = ["(set-logic QF_UF)", "(declare-fun p () Bool)", "(declare-fun q () Bool)", "(declare-fun a () Bool)"]
    body = "t%d" % depth
    for i in range(depth, 0, -1):
        body = "(let ((t%d (and (or t%d p) (or t%d q)))) %s)" % (i, i - 1, i - 1, body)
    body = "(let ((t0 (or a (not p)))) %s)" % body
    lines += ["(assert %s)" % body, "(check-sat)"]
    return "\n".join(lines) + "\n"


def _script_cost_job(_):
    """A script that was read from text and is written again with daggify=True (what `python -m pysmt.smtlib.parser in out` does),
    and SmtLibScript.to_file-style re-serialisation of a script built in memory: the cost and the length of the text follow the number
    of nodes of the shared tower, not the number of its paths."""
    depths = (4, 8, 12)

    def call(w, it, f):
        out = {}
        for how in ("parsed script", "script built in memory"):
            costs, sizes = [], []
            for d in depths:
                if how == "parsed script":
                    ps = w.new_walker(PARSER, w.env)
                    script = it.call(it.getattr(ps, "get_script"), [it.call(ExtRef("io.StringIO"), [_tower_text(d)])])
                else:
                    t = w.app("Or", w.symbol("a", BOOL), w.app("Not", w.symbol("p", BOOL)))
                    for _i in range(d):
                        t = w.app("And", w.app("Or", t, w.symbol("p", BOOL)), w.app("Or", t, w.symbol("q", BOOL)))
                    mk = it.module_global(w.repo.modules["pysmt.smtlib.script"], "smtlibscript_from_formula")
                    script = it.call(mk, [t])
                # warm-up on another printer object is not possible (one printer per call): the one-time work is small next to d = 4
                sio = it.call(ExtRef("io.StringIO"), [])
                c0 = it.cost()
                it.call(it.getattr(script, "serialize"), [sio], {"daggify": True})
                costs.append(it.cost() - c0)
                sizes.append(len(it.call(it.getattr(sio, "getvalue"), [])))
            out[how] = (costs, sizes)
        return out

    def post(w, f, val, facts):
        return proc.ProcResult(None, "valid", val)
    res = proc.run_proc(Shape(("lit", True, BOOL)), call, post=post, services="full", interp_kwargs=BIG, max_paths=4, world_cls=TextWorld)
    if len(res) != 1 or res[0].kind != "valid":
        return ("unsupported", "%s %s" % (res[0].kind, str(res[0].detail)[:200]))
    return ("ok", res[0].detail)


def script_cost(repo):
    return _script_cost_job(None)


def _import_job(job):
    name, text, expect = job[:3]
    ref_text = job[3] if len(job) > 3 and job[3] else text      # the same script in standard spelling (pySMT extensions)
    reserialise = job[4] if len(job) > 4 else True
    interactive = bool(job[5]) if len(job) > 5 else False
    parser_cls = job[6] if len(job) > 6 and job[6] else PARSER
    out = {"name": name, "expect": expect, "kind": None, "detail": "", "last": None}

    def call(w, it, f):
        ps = w.new_walker(parser_cls, w.env, interactive=True) if interactive else w.new_walker(parser_cls, w.env)
        script = it.call(it.getattr(ps, "get_script"), [it.call(ExtRef("io.StringIO"), [text])])
        cmds = _cmd_list(w, it, script)
        try:
            last = ("ok", it.call(it.getattr(script, "get_last_formula"), []))
        except AbsRaise as ex:
            last = ("raise", "%s%s" % (ex.cls_name, proc._args(ex)))
        # re-serialise the command list (tree form, then let-DAG form with one printer for the whole script)
        # and read it again
        again = []
        for dag in ((False, True) if reserialise else ()):
            try:
                sio = it.call(ExtRef("io.StringIO"), [])
                it.call(it.getattr(script, "serialize"), [sio], {"daggify": dag})
                text2 = it.call(it.getattr(sio, "getvalue"), [])
                ps2 = w.new_walker(PARSER, w.env)
                script2 = it.call(it.getattr(ps2, "get_script"), [it.call(ExtRef("io.StringIO"), [text2])])
                again.append(("ok", text2, _cmd_list(w, it, script2)))
            except AbsRaise as ex:
                again.append(("raise", "%s%s" % (ex.cls_name, proc._args(ex)), None))
            except Unsupported as ex:
                again.append(("unsupported", str(ex), None))
        return (cmds, last, again)

    def post(w, f, val, facts):
        return proc.ProcResult(None, "valid", (w, val))
    res = proc.run_proc(Shape(("lit", True, BOOL)), call, post=post, services="full", interp_kwargs=BIG, max_paths=8,
                        world_cls=TextWorld)
    r = res[0]
    # reference side
    try:
        ref = refsmt.read_script(ref_text)
        ref_err = None
    except refsmt.SmtError as e:
        ref, ref_err = None, e
    if len(res) != 1 or r.kind not in ("valid", "raises"):
        out["kind"] = "unsupported"
        out["detail"] = "%s %s" % (r.kind, str(r.detail)[:200])
        return out
    if r.kind == "raises":
        if ref is not None:
            out["kind"] = "rejected-valid"
            out["detail"] = "the parser rejects well-formed text: %s" % str(r.detail)[:200]
        else:
            out["kind"] = "valid"
            out["detail"] = "rejected (%s); reference: %s" % (str(r.detail)[:80], ref_err)
        return out
    w, (cmds, last, agains) = r.detail
    out["again"] = None
    for form, again in zip(("tree form", "let-DAG form"), agains):
        verdict = _judge_again(w, cmds, again)
        if verdict[0] != "valid":
            out["again"] = (verdict[0], "%s: %s" % (form, verdict[1]))
            break
        out["again"] = verdict
    out["reexport"] = None

    def _reexport():
        # the re-serialised text is SMT-LIB in its own right: read by the independent reader (which, unlike pySMT's parser,
        # forgets declarations at a pop) it is well-formed and has the same live assertions as the original
        if ref is not None and ref_text is text:
            for form, again in zip(("tree form", "let-DAG form"), agains):
                if again[0] != "ok" or not isinstance(again[1], str):
                    continue
                try:
                    ref2 = refsmt.read_script(again[1])
                except refsmt.SmtError as e:
                    if e.unsupported:
                        out["reexport"] = ("unsupported", str(e))
                    else:
                        out["reexport"] = ("invalid", "%s: the re-serialised script is not well-formed SMT-LIB: %s [text: %s]"
                                           % (form, e, again[1].replace("\n", " ")[:260]))
                    break
                l1, l2 = ref.live_assertions(), ref2.live_assertions()
                bad = None
                if len(l1) != len(l2):
                    bad = "%d live assertions, the original has %d" % (len(l2), len(l1))
                else:
                    for t1_, t2_ in zip(l1, l2):
                        ok_, why_ = textsem.equivalent(t1_, t2_)
                        if ok_ is False:
                            bad = "assertion %s is written as %s" % (refsmt.term_str(t1_), refsmt.term_str(t2_))
                            break
                if bad:
                    out["reexport"] = ("invalid", "%s: %s" % (form, bad))
                    break
                out["reexport"] = ("valid", "well-formed, %d live assertions as in the original" % len(l1))
    if ref is None:
        if ref_err.unsupported:
            out["kind"] = "unsupported"
            out["detail"] = "reference reader: %s" % ref_err
        else:
            out["kind"] = "accepted-illformed"
            out["detail"] = "accepted although ill-formed (%s)" % ref_err
            shown = [sc.node_str(w, a[0]) for n_, a in cmds if n_ == "assert" and a and w.is_node(a[0])]
            if shown:
                out["detail"] += "; read as %s" % "; ".join(shown)[:200]
        return out
    # push / pop numerals
    mine_pp = [(n_, a[0] if a else None) for n_, a in cmds if n_ in ("push", "pop")]
    ref_pp = [(n_, k) for n_, k in ref.commands if n_ in ("push", "pop")]
    if mine_pp != ref_pp:
        out["kind"] = "invalid"
        out["detail"] = "stack commands are read as %s, the text says %s" % (mine_pp, ref_pp)
        return out
    # compare the asserted terms (and objective terms / soft clauses) in order
    TERM_CMDS = ("assert", "maximize", "minimize", "assert-soft")
    mine = [a[0] for n_, a in cmds if n_ in TERM_CMDS]
    theirs = [(t if n_ == "assert" else t[0]) for n_, t in ref.commands if n_ in TERM_CMDS]
    # flags of the objectives
    for (n1, a1), (n2, t2) in zip([(n_, a) for n_, a in cmds if n_ in ("maximize", "minimize")],
                                  [(n_, t) for n_, t in ref.commands if n_ in ("maximize", "minimize")]):
        opts = dict(w.it.iterate(a1[1])) if len(a1) > 1 and a1[1] else {}
        if bool(opts.get(":signed", False)) != bool(t2[1].get(":signed", False)):
            out["kind"] = "invalid"
            out["detail"] = "%s: the :signed flag is read as %r, the text says %r" % (n1, opts.get(":signed"), t2[1].get(":signed", False))
            return out
    if len(mine) != len(theirs):
        out["kind"] = "invalid"
        out["detail"] = "%d term commands returned, the text has %d" % (len(mine), len(theirs))
        return out
    n_ok = 0
    for i, (m, t) in enumerate(zip(mine, theirs)):
        try:
            mt = textsem.from_node(w, m)
        except textsem.NotConcrete as e:
            out["kind"], out["detail"] = "unsupported", str(e)
            return out
        ok, why = textsem.equivalent(mt, t)
        if ok is False:
            out["kind"] = "invalid"
            out["detail"] = "assertion %d is read as %s; the text denotes %s: %s" % (i, sc.node_str(w, m), refsmt.term_str(t), why)
            return out
        if ok is None:
            out["kind"], out["detail"] = "unsupported", why
            return out
        n_ok += 1
    # assertion stack: get_last_formula == conjunction of the live assertions
    live = ref.live_assertions()
    if last[0] == "ok" and w.is_node(last[1]):
        lt = textsem.from_node(w, last[1])
        want = refsmt.T("BOOL_CONSTANT", (), True) if not live else (live[0] if len(live) == 1 else refsmt.T("AND", live))
        ok, why = textsem.equivalent(lt, want)
        out["last"] = ("valid", why) if ok else (("invalid", "get_last_formula is %s; live assertions: %s (%s)"
                                                  % (sc.node_str(w, last[1]), refsmt.term_str(want), why)) if ok is False
                                                 else ("unsupported", why))
    else:
        out["last"] = ("raises", str(last[1]))
    out["kind"] = "valid"
    out["detail"] = "%d assertions denote what the text denotes" % n_ok
    if out["last"] is None or out["last"][0] == "valid":
        _reexport()
    return out


MAY_REJECT = {"nary-minus": "n-ary minus is not implemented (assertion)", "chain-equals": "chained = is not implemented",
              "chain-less": "chained < is not implemented", "implies-right-assoc": "n-ary => is not implemented",
              "bv-rotate-beyond-width": "rotation by more than the width is rejected by the type checker",
              "str-ops-new-names": "SMT-LIB 2.6 spellings str.to_int / str.from_int are not in the token table",
              "crlf": "carriage return is not white space for the tokeniser",
              "quoted-bv-literal-symbol": "a quoted symbol spelled like a literal shadows the literal (F-C08-3); here the "
                                          "shadowed occurrence is ill-sorted, so the script is rejected with an error",
              "named-term": "a :named term cannot be referred to by its name (the name is read as an unknown token)"}
LENIENT = {"assert-non-bool": "assert of a non-Boolean term is recorded as written",
           "redeclaration": "an identical redeclaration is idempotent",
           "pop-too-far": "the parser records pop commands without replaying the stack",
           "use-after-pop": "declarations are global in pySMT: the symbol is still known after the pop"}


# scripts whose misreading is a recorded known finding: not repeated for the interactive reader
KNOWN_MISREAD = {"let-simultaneous", "let-simultaneous-2", "let-nested-shadow", "quoted-numeral-symbol", "quoted-numeral-symbol-unused",
                 "quoted-bv-literal-symbol"}


_IMPORT = {}


def import_results(repo, tier="quick"):
    key = (repo.root, tier)
    if key not in _IMPORT:
        jobs = [(n, t, "may-reject" if n in MAY_REJECT else "accept") for n, t in import_corpus()] + \
               [(n, t, "lenient" if n in LENIENT else "reject") for n, t in reject_corpus()]
        # the character-by-character reader of SmtLibParser(interactive=True): the scripts whose reading depends on how
        # characters are consumed (white space inside literals, comments, quoting), and a sample of the others
        corp = import_corpus()
        pick = [(n, t) for n, t in corp if n.startswith(("cr-", "newline-", "quoted", "comment", "string")) or "|" in t or '"' in t]
        pick += [(n, t) for n, t in corp[::9] if (n, t) not in pick]
        jobs += [(n + " [interactive reader]", t, "may-reject" if n in MAY_REJECT else "accept", None, False, True)
                 for n, t in pick if n not in KNOWN_MISREAD]
        # the dialect reader (SmtLibZ3Parser): each extension is read as the standard term it abbreviates
        Z3P = "pysmt.smtlib.parser.parser.SmtLibZ3Parser"
        BVD = "(declare-fun u () (_ BitVec 4))(declare-fun v () (_ BitVec 4))(declare-fun x () Int)"
        for nm_, ext, std in [("ext_rotate_left", "(= (ext_rotate_left u #x1) v)", "(= ((_ rotate_left 1) u) v)"),
                              ("ext_rotate_left-3", "(= (ext_rotate_left u #b0011) v)", "(= ((_ rotate_left 3) u) v)"),
                              ("ext_rotate_right", "(= (ext_rotate_right u #x1) v)", "(= ((_ rotate_right 1) u) v)"),
                              ("ext_rotate_right-2", "(= (ext_rotate_right (bvadd u v) #x2) u)", "(= ((_ rotate_right 2) (bvadd u v)) u)"),
                              ("both-rotations", "(= (ext_rotate_left u #x1) (ext_rotate_right v #x1))", "(= ((_ rotate_left 1) u) ((_ rotate_right 1) v))"),
                              ("bv2int", "(= (bv2int u) x)", "(= (bv2nat u) x)"), ("ubv_to_int", "(< (ubv_to_int (bvmul u v)) x)", "(< (bv2nat (bvmul u v)) x)"),
                              ("standard-rotations", "(= ((_ rotate_left 1) u) ((_ rotate_right 3) v))", "(= ((_ rotate_left 1) u) ((_ rotate_right 3) v))")]:
            jobs.append(("z3-dialect-" + nm_ + " [SmtLibZ3Parser]", BVD + "(assert %s)" % ext, "accept", BVD + "(assert %s)" % std, False, False, Z3P))
        first = _import_job(jobs[0])
        _IMPORT[key] = [first] + parallel_map(_import_job, jobs[1:])
    return _IMPORT[key]


# ------------------------------------------------------------------------------------------------ human-readable round trip
def _hr_job(shape_t):
    smt_first = isinstance(shape_t, tuple) and len(shape_t) == 2 and shape_t[0] == "after-smt"
    if smt_first:
        shape_t = shape_t[1]
    shape = Shape(shape_t)
    out = {"shape": repr(shape) + (" (after an SMT-LIB print)" if smt_first else ""), "kind": None, "detail": "", "text": None}

    def call(w, it, f):
        if smt_first:
            it.call(it.module_global(w.repo.modules["pysmt.smtlib.printers"], "to_smtlib"), [f], {"daggify": False})
        txt = it.call(it.getattr(f, "serialize"), [])
        try:
            # the same serialisation after the formula went through the other concrete syntax
            it.call(it.module_global(w.repo.modules["pysmt.smtlib.printers"], "to_smtlib"), [f], {"daggify": False})
            txt2 = it.call(it.getattr(f, "serialize"), [])
            if txt2 != txt:
                return (txt, ("raise", "after an SMT-LIB print of the same formula the serialisation reads %r" % (txt2,)))
        except (AbsRaise, Unsupported):
            pass
        try:
            hp = it.call(it.module_global(w.repo.modules["pysmt.parsing"], "HRParser"), [w.env])
            g = ("ok", it.call(it.getattr(hp, "parse"), [txt]))
        except AbsRaise as ex:
            g = ("raise", "%s%s" % (ex.cls_name, proc._args(ex)))
        return (txt, g)

    def post(w, f, val, facts):
        return proc.ProcResult(shape, "valid", (w, f, val))
    res = proc.run_proc(shape, call, post=post, services="full", interp_kwargs=BIG, max_paths=8, world_cls=TextWorld)
    r = res[0]
    if len(res) != 1 or r.kind != "valid":
        out["kind"] = "raises" if r.kind == "raises" else "unsupported"
        out["detail"] = "%s %s" % (r.kind, str(r.detail)[:200])
        return out
    w, f, (txt, (st, g)) = r.detail
    out["text"] = txt if isinstance(txt, str) else repr(txt)
    if not isinstance(txt, str):
        out["kind"], out["detail"] = "unsupported", "serialisation is not concrete text"
        return out
    if st == "raise":
        out["kind"], out["detail"] = "rejected", "the human-readable parser rejects %r: %s" % (txt[:120], g)
        if _outside_hr_fragment(shape_t) and "UndefinedSymbolError" in str(g):
            out["kind"] = "outside"
            out["detail"] = "outside the parser's fragment (the grammar has no names for user sorts inside a type expression): rejected with %s" % (g,)
        return out
    if g is f:
        out["kind"], out["detail"] = "valid", "same node"
        return out
    try:
        a, b = textsem.from_node(w, g), textsem.from_node(w, f)
    except textsem.NotConcrete as e:
        out["kind"], out["detail"] = "unsupported", str(e)
        return out
    try:
        sa_, sb_ = refsmt.sort_of(a), refsmt.sort_of(b)
    except refsem.NoSemantics:
        sa_ = sb_ = None
    if sa_ != sb_:
        out["kind"], out["detail"] = "invalid", "%r is read back with sort %s, the formula has sort %s" % (txt[:120], sa_, sb_)
        return out
    ok, why = textsem.equivalent(a, b)
    if ok is True:
        out["kind"], out["detail"] = "valid", "equivalent (%s)" % why
    elif ok is False:
        out["kind"], out["detail"] = "invalid", "%r is read back as %s: %s" % (txt[:120], sc.node_str(w, g), why)
    else:
        out["kind"], out["detail"] = "unsupported", why
    return out


def hr_reuse_pairs():
    """(first formula, second formula): both are read by ONE HRParser object; the second reading must be what a
    fresh parser gives - the first may use quoted symbols spelled like keywords, type names and operators"""
    a, x, r = S("a"), S("x", INT), S("r", REAL)
    F = lambda n, so=BOOL: S(n, so)
    return [
        (("And", F("True"), a), ("Or", a, ("lit", True, BOOL))),
        (("Or", F("False"), ("Not", F("True"))), ("And", a, ("Or", ("lit", False, BOOL), ("lit", True, BOOL)))),
        (("LT", F("Int", INT), ("lit", 2, INT)), ("Equals", ("Select", ("Array", ("type", INT), ("lit", 0, INT)), x), ("lit", 1, INT))),
        (("LT", F("ToReal", INT), x), ("LT", ("ToReal", x), r)),
        (("And", F("forall"), F("exists")), ("forall", [("a", BOOL)], ("exists", [("b", BOOL)], ("Or", a, S("b"))))),
        (("Equals", F("Array", INT), F("BV", INT)), ("Equals", S("u", ("BV", 4)), ("lit", 3, ("BV", 4)))),
        (("Iff", F("xor"), a), ("And", a, ("Not", S("b")))),
        (("And", a, ("Not", S("b"))), ("Or", F("True"), a)),
    ]


def _hr_reuse_job(idx):
    t1, t2 = hr_reuse_pairs()[idx]
    shape = Shape(t2)
    tag = "%s read after %s by the same parser object" % (repr(Shape(t2)), repr(Shape(t1)))

    def call(w, it, f2):
        f1 = proc.build_shape(w, t1)
        txt1 = it.call(it.getattr(f1, "serialize"), [])
        txt2 = it.call(it.getattr(f2, "serialize"), [])
        HR = it.module_global(w.repo.modules["pysmt.parsing"], "HRParser")
        hp = it.call(HR, [w.env])
        out = []
        for hp_, pre in ((hp, txt1), (it.call(HR, [w.env]), None)):
            try:
                if pre is not None:
                    it.call(it.getattr(hp_, "parse"), [pre])
                out.append(("ok", it.call(it.getattr(hp_, "parse"), [txt2])))
            except AbsRaise as ex:
                out.append(("raise", "%s%s" % (ex.cls_name, proc._args(ex))))
        return (txt2, out)

    def post(w, f, val, facts):
        return proc.ProcResult(shape, "valid", (w, f, val))
    res = proc.run_proc(shape, call, post=post, services="full", interp_kwargs=BIG, max_paths=8, world_cls=TextWorld)
    r = res[0]
    if len(res) != 1 or r.kind != "valid":
        return (tag, "unsupported", "%s %s" % (r.kind, str(r.detail)[:200]))
    w, f2, (txt2, (reused, fresh)) = r.detail
    if reused[0] != fresh[0]:
        return (tag, "invalid", "%r: the reused parser %s, a fresh parser %s" % (txt2, "raises " + str(reused[1]) if reused[0] == "raise" else "reads it",
                                                                                  "raises " + str(fresh[1]) if fresh[0] == "raise" else "reads it"))
    if reused[0] == "ok" and reused[1] is not fresh[1]:
        return (tag, "invalid", "%r is read as %s by the reused parser and as %s by a fresh one"
                % (txt2, sc.node_str(w, reused[1]) if w.is_node(reused[1]) else reused[1], sc.node_str(w, fresh[1]) if w.is_node(fresh[1]) else fresh[1]))
    return (tag, "valid", "as a fresh parser")


def hr_reuse_results(repo, tier="quick"):
    return parallel_map(_hr_reuse_job, list(range(len(hr_reuse_pairs()))))


HR_FAIL_CASES = [("(zz & a)", [("zz", BOOL)]), ("((0 < zn) | a)", [("zn", INT)]), ("('z z' -> a)", [("z z", BOOL)]),
                 ("(a & (forall q . (q | zz)))", [("zz", BOOL)]), ("(zz & ", [("zz", BOOL)]), ("(a & b) zz", [("zz", BOOL)])]


def _hr_failure_job(idx):
    """One HRParser object: a text over names that are not declared yet is rejected; the names are declared; the same
    parser reads the text (and another one) as a fresh parser does."""
    text, decls = HR_FAIL_CASES[idx]
    shape = Shape(("And", S("a"), S("b")))
    tag = "%r rejected, then %s declared, then read again by the same parser" % (text, ", ".join(n for n, _ in decls))

    def call(w, it, f):
        HR = it.module_global(w.repo.modules["pysmt.parsing"], "HRParser")
        hp = it.call(HR, [w.env])
        try:
            it.call(it.getattr(hp, "parse"), [text])
            first = "accepted"
        except AbsRaise as ex:
            first = "raises " + ex.cls_name
        for n, so in decls:
            w.symbol(n, so)
        good = text if text.count("(") == text.count(")") and not text.endswith(" zz") else "(zz & a)"
        out = []
        for hp_ in (hp, it.call(HR, [w.env])):
            r = []
            for t in (good, "(a | b)"):
                try:
                    r.append(("ok", it.call(it.getattr(hp_, "parse"), [t])))
                except AbsRaise as ex:
                    r.append(("raise", ex.cls_name))
            out.append(r)
        return (first, out)

    def post(w, f, val, facts):
        return proc.ProcResult(shape, "valid", (w, val))
    res = proc.run_proc(shape, call, post=post, services="full", interp_kwargs=BIG, max_paths=8, world_cls=TextWorld)
    r = res[0]
    if len(res) != 1 or r.kind != "valid":
        return (tag, "unsupported", "%s %s" % (r.kind, str(r.detail)[:200]))
    w, (first, (same, fresh)) = r.detail
    if not first.startswith("raises"):
        return (tag, "unsupported", "the first text is %s" % first)
    for (k1, v1), (k2, v2) in zip(same, fresh):
        if k1 != k2 or (k1 == "ok" and v1 is not v2) or (k1 == "raise" and v1 != v2):
            return (tag, "invalid", "the parser that rejected the text %s; a fresh parser %s"
                    % ("raises " + str(v1) if k1 == "raise" else "reads " + (sc.node_str(w, v1) if w.is_node(v1) else repr(v1)),
                       "raises " + str(v2) if k2 == "raise" else "reads " + (sc.node_str(w, v2) if w.is_node(v2) else repr(v2))))
    return (tag, "valid", "as a fresh parser (first attempt: %s)" % first)


def hr_failure_results(repo, tier="quick"):
    return parallel_map(_hr_failure_job, list(range(len(HR_FAIL_CASES))))


def _outside_hr_fragment(t):
    """Array-value literals print their type, Array{Index, Element}(...); when a user sort occurs in it the text is
    outside the human-readable grammar (which names Bool / Int / Real / BV / Array only) - the property quantifies over
    the parser's fragment."""
    def custom(so):
        return isinstance(so, tuple) and so and (so[0] == "CUSTOM" or any(custom(x) for x in so[1:] if isinstance(x, tuple)))
    if not isinstance(t, tuple):
        return False
    if t and t[0] == "Array" and len(t) > 1 and isinstance(t[1], tuple) and t[1][0] == "type" and custom(t[1][1]):
        return True
    return any(_outside_hr_fragment(x) for x in t[1:] if isinstance(x, (tuple, list))) or \
        any(_outside_hr_fragment(y) for x in t[1:] if isinstance(x, list) for y in x)


_HR = {}


def hr_results(repo, tier="quick"):
    key = (repo.root, tier)
    if key not in _HR:
        shapes = export_shapes()
        if tier == "thorough":
            shapes = proc.in_contexts(shapes)
        shapes = [sh.t for sh in shapes]
        shapes += [("after-smt", sh.t) for sh in export_shapes() if _mentions(sh.t, set(ODD_NAMES))]
        first = _hr_job(shapes[0])
        _HR[key] = [first] + parallel_map(_hr_job, shapes[1:])
    return _HR[key]


# ------------------------------------------------------------------------------------------------ failing parse, then another
def failure_pairs():
    """(name, rejected script, later script).  The rejected script fails inside one command; the later script
    reuses its names with other sorts / meanings."""
    good_x = "(declare-fun x () Real)(assert (> x 0.5))(check-sat)"
    return [
        ("declare-fun extra token", "(declare-fun x () Int Int)", good_x),
        ("declare-fun truncated", "(declare-fun x () Int", good_x),
        ("declare-fun bad sort", "(declare-fun x () Foo)", good_x),
        ("declare-const extra token", "(declare-const x Int Int)", good_x),
        ("function signature extra token", "(declare-fun f (Int) Int extra)",
         "(declare-fun f (Real) Real)(assert (> (f 1.0) 0.5))"),
        ("define-fun ill-typed body", "(define-fun g ((p Int)) Int (and p p))",
         "(define-fun g ((p Real)) Real (+ p 1.0))(declare-fun r () Real)(assert (= (g r) r))"),
        ("define-fun truncated", "(define-fun g ((p Int)) Int (+ p",
         "(declare-fun p () Bool)(define-fun g ((q Bool)) Bool (and p q))(assert (g p))"),
        ("let truncated", "(declare-fun a () Bool)(assert (let ((t a)) (and t",
         "(declare-fun t () Int)(declare-fun a () Bool)(assert (and a (< t 1)))"),
        ("quantifier truncated", "(declare-fun a () Bool)(assert (forall ((y Int)) (or a",
         # (bound variables are environment-wide symbols in pySMT: y stays an Int symbol, by design)
         "(declare-fun y () Int)(declare-fun a () Bool)(assert (or a (< y 1)))"),
        ("unknown command", "(frobnicate 1 2)", good_x),
        ("logic then failure", "(set-logic QF_LRA)(declare-fun z () Real Real)",
         "(declare-fun i () Int)(assert (> i 1))"),
    ]


def reuse_pairs():
    """(name, accepted script, later script): the later script gives other meanings to names, sorts, definitions
    and to numerals than the first one did; a parser object used for both must read it as a fresh parser does."""
    return [
        ("logic of the first script", "(set-logic QF_LRA)(declare-fun z () Real)(assert (< z 3))",
         "(declare-fun i () Int)(assert (> i 1))"),
        ("definition of the first script", "(define-fun g ((p Int)) Int (+ p 1))(declare-fun x () Int)(assert (= (g x) 2))",
         "(declare-fun g (Int) Int)(declare-fun x () Int)(assert (= (g x) 2))"),
        ("definition redefined", "(define-fun g ((p Int)) Int (+ p 1))(declare-fun x () Int)(assert (= (g x) 2))",
         "(define-fun g ((p Int)) Int (* p 2))(declare-fun x () Int)(assert (= (g x) 2))"),
        ("let binding of the first script", "(declare-fun a () Bool)(assert (let ((t a)) (and t t)))",
         "(declare-fun t () Int)(declare-fun a () Bool)(assert (and a (< t 1)))"),
        ("sort abbreviation of the first script", "(define-sort W () Int)(declare-fun k () W)(assert (< k 1))",
         "(define-sort W () Real)(declare-fun q () W)(assert (< q 1.5))"),
        ("open levels of the first script", "(declare-fun a () Bool)(push 1)(assert a)",
         "(declare-fun b () Bool)(assert b)(check-sat)"),
    ]


def _reuse_job(job):
    return _failure_job(job, first="ok")


def _failure_job(job, first="raise"):
    name, bad, good = job
    from .c14_deep import ac_sig

    def run(seq, reuse):
        def call(w, it, f):
            ps = w.new_walker(PARSER, w.env)
            outs = []
            for idx, text in enumerate(seq):
                if idx and not reuse:
                    ps = w.new_walker(PARSER, w.env)
                try:
                    script = it.call(it.getattr(ps, "get_script"), [it.call(ExtRef("io.StringIO"), [text])])
                    cmds = _cmd_list(w, it, script)
                    terms = [ac_sig(w, a[0]) for n_, a in cmds if n_ == "assert"]
                    last = it.call(it.getattr(script, "get_last_formula"), [])
                    outs.append(("ok", terms, ac_sig(w, last)))
                except AbsRaise as ex:
                    outs.append(("raise", ex.cls_name, None))
            return outs
        res = proc.run_proc(Shape(("lit", True, BOOL)), call, post=lambda w, f, v, facts: proc.ProcResult(None, "valid", v),
                            services="full", interp_kwargs=BIG, max_paths=8, world_cls=TextWorld)
        if len(res) != 1 or res[0].kind != "valid":
            return None, "%s %s" % (res[0].kind, str(res[0].detail)[:200])
        return res[0].detail, None
    out = []
    fresh, err = run([good], True)
    if fresh is None:
        return [(name, "?", "unsupported", err)]
    for reuse in (True, False):
        how = "same parser" if reuse else "new parser, same environment"
        hist, err = run([bad, good], reuse)
        if hist is None:
            out.append((name, how, "unsupported", err))
            continue
        if hist[0][0] != first:
            out.append((name, how, "unsupported", "the first script is %s" % ("not rejected" if first == "raise" else "rejected")))
            continue
        if hist[1] != fresh[0]:
            def show(r):
                return "raises %s" % r[1] if r[0] == "raise" else "reads %s" % (str(r[1])[:160],)
            out.append((name, how, "invalid", "after the %s script %r the script %r %s; in a fresh environment it %s"
                        % ("rejected" if first == "raise" else "earlier", bad, good, show(hist[1]), show(fresh[0]))))
        else:
            out.append((name, how, "valid", "same as in a fresh environment"))
    return out


_FAIL = {}
_REUSE = {}


def reuse_results(repo, tier="quick"):
    key = (repo.root, tier)
    if key not in _REUSE:
        out = []
        for r in parallel_map(_reuse_job, reuse_pairs()):
            out.extend(r)
        _REUSE[key] = out
    return _REUSE[key]


def failure_results(repo, tier="quick"):
    key = (repo.root, tier)
    if key not in _FAIL:
        out = []
        for r in parallel_map(_failure_job, failure_pairs()):
            out.extend(r)
        _FAIL[key] = out
    return _FAIL[key]
