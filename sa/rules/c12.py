"""C12 -- formula analyses (free symbols, atoms, qf-ness, sorts, sizes) are exact."""
import ast

from ..common import (get_repo, get_ops, get_tables, short, norm, method_loc, calls_in, attr_tail,
                      parents, names_in, handler_funcs, dispatch_rule)

ORACLES = {"FreeVarsOracle": "pysmt.oracles.FreeVarsOracle", "AtomsOracle": "pysmt.oracles.AtomsOracle",
           "QuantifierOracle": "pysmt.oracles.QuantifierOracle", "TypesOracle": "pysmt.oracles.TypesOracle",
           "SizeOracle": "pysmt.oracles.SizeOracle"}
TYPES = ORACLES["TypesOracle"]
THEORY = "pysmt.oracles.TheoryOracle"

EXPLANATION = (
    "Abstract interpretation of pysmt/oracles.py: FreeVarsOracle, AtomsOracle, QuantifierOracle, TypesOracle and "
    "SizeOracle with its six measures are interpreted from source on ~85 operator skeletons - every operator "
    "family, binders and shadowing, Boolean terms inside theory terms, shared sub-terms, sorts that occur only in "
    "a payload (bound-variable lists, constant-array index sorts, inner function signatures) - and the answers "
    "equal independent structural reference definitions computed on the skeleton (R2).  Exhaustive dispatch of "
    "the four table-driven oracles over the operator universe, by resolution of their handler tables (R1).  Answers "
    "are cached per formula, not per node id: each oracle (and the type checker) is asked about a formula of one real, "
    "interpreted environment and then about a structurally different formula of another environment whose nodes "
    "carry the same ids; the second answer is the one a fresh oracle gives (R4).")
NOT_DECIDED = ["skeletons outside the menu (the thorough tier places every skeleton in further contexts)"]


def run(ctx):
    repo, ops, ht = get_repo(), get_ops(), get_tables()
    ctx.analysed["modules"] = ["pysmt/oracles.py", "pysmt/fnode.py"]

    if ctx.want("R1"):
        rs = ctx.rule("R1", "exhaustive dispatch of the five oracles")
        for nm, q in sorted(ORACLES.items()):
            if nm == "SizeOracle":
                # SizeOracle installs its handlers per call (set_walking_measure): no static table; its six
                # measures are interpreted on every skeleton by R2
                continue
            dispatch_rule(ctx, rs, q)
        ctx.floor(rs, 260)

    if ctx.want("R4"):
        rs = ctx.rule("R4", "real managers: an analysis asked about formulas of two environments whose node ids coincide answers each as a fresh analysis does")
        from . import mgr_deep
        mgr_deep.report(ctx, rs, mgr_deep.alias_results(), "pysmt/oracles.py", 30)

    from . import c12_deep
    c12_deep.run(ctx)
