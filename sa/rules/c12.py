"""C12 -- formula analyses (free symbols, atoms, qf-ness, sorts, sizes) are exact."""
import ast

from ..common import (get_repo, get_ops, get_tables, short, norm, method_loc, calls_in, attr_tail,
                      parents, names_in, handler_funcs, dispatch_rule)

ORACLES = {"FreeVarsOracle": "pysmt.oracles.FreeVarsOracle", "AtomsOracle": "pysmt.oracles.AtomsOracle",
           "QuantifierOracle": "pysmt.oracles.QuantifierOracle", "TypesOracle": "pysmt.oracles.TypesOracle",
           "SizeOracle": "pysmt.oracles.SizeOracle"}
TYPES = ORACLES["TypesOracle"]
THEORY = "pysmt.oracles.TheoryOracle"

EXPLANATION = (
    "Static analysis of pysmt/oracles.py: exhaustive dispatch of the five oracles (R1); the transfer "
    "five oracles (six size measures), interpreted on 85 operator skeletons with binders, shadowing, "
    "Boolean terms inside theory terms and shared sub-terms, equal independent structural reference "
    "definitions (R2, abstract interpreter); every operator that carries a sort in its payload contributes it to the sort "
    "analysis, cross-checked against TheoryOracle (R3).")
NOT_DECIDED = ["nothing beyond the structural definitions: semantic dependence follows from R2"]

# operator -> accessor through which its payload sort(s) are reachable
PAYLOAD_SORT = {
    "SYMBOL": ["symbol_type"],
    "FUNCTION": ["function_name"],
    "FORALL": ["quantifier_vars"], "EXISTS": ["quantifier_vars"],
    "ARRAY_VALUE": ["array_value_index_type", "get_type"],
    "BOOL_CONSTANT": ["constant_type"], "INT_CONSTANT": ["constant_type"], "REAL_CONSTANT": ["constant_type"],
    "BV_CONSTANT": ["constant_type", "bv_width"], "STR_CONSTANT": ["constant_type"],
    "ALGEBRAIC_CONSTANT": ["constant_type"],
}


def run(ctx):
    repo, ops, ht = get_repo(), get_ops(), get_tables()
    ctx.analysed["modules"] = ["pysmt/oracles.py", "pysmt/fnode.py"]

    if ctx.want("R1"):
        rs = ctx.rule("R1", "exhaustive dispatch of the five oracles")
        for nm, q in sorted(ORACLES.items()):
            if nm == "SizeOracle":
                # SizeOracle installs its handlers per call: set_function(measure_fun, *ALL_TYPES)
                cls, f = repo.method(q, "set_walking_measure")
                if "self.set_function(self.measure_to_fun[measure], *op.ALL_TYPES)" in norm(f):
                    rs.ok({"class": nm, "dispatch": "measure function installed for op.ALL_TYPES"})
                else:
                    rs.unrec("SizeOracle.set_walking_measure shape")
                continue
            dispatch_rule(ctx, rs, q)
        ctx.floor(rs, 260)

    if ctx.want("R3"):
        rs = ctx.rule("R3", "operators carrying a sort in their payload contribute it")
        tab = ht.table(TYPES)
        ttab = ht.table(THEORY)
        for opn, accs in sorted(PAYLOAD_SORT.items()):
            o = ops.id(opn)
            h = tab[o]
            if h.is_error or h.func is None:
                continue
            used = set(attr_tail(c) for c in calls_in(h.func))
            th = ttab[o]
            tused = set(attr_tail(c) for c in calls_in(th.func)) if th.func is not None else set()
            if used & set(accs):
                rs.ok({"op": opn, "handler": h.name, "reads": sorted(used & set(accs))})
            else:
                cross = sorted(tused & set(accs))
                ctx.finding(rs, "%s|%s|payload-sort-dropped" % (TYPES, opn),
                            "TypesOracle handles %s with %s, which never reads the sort carried in the node's payload "
                            "(%s)%s: a custom sort that occurs only there is not reported, so it is never declared"
                            % (opn, h.name, "/".join(accs),
                               "; TheoryOracle does read %s for the same operator" % cross if cross else ""),
                            method_loc(repo, h.cls, h.func))
        ctx.floor(rs, 8)

    from . import c12_deep
    c12_deep.run(ctx)
