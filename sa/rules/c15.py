"""C15 -- a failing call leaves no trace."""
import ast

from ..common import (get_repo, get_tables, short, norm, CFG, normal_only, method_loc, calls_in,
                      attr_tail, is_self_attr, parents)

DAG = "pysmt.walkers.dag.DagWalker"
FM = "pysmt.formula.FormulaManager"
PARSER = "pysmt.smtlib.parser.parser.SmtLibParser"

EXPLANATION = (
    "Static analysis: the traversal scratch state of DagWalker (work stack, one-shot memo) is "
    "restored on exceptional exit of walk()/iter_walk() in DagWalker and every overrider (R1, CFG "
    "with exceptional edges); the hash-consing table insertion and id advance do not precede the "
    "type check on the miss path of create_node (R2); parser entry points start from a reset "
    "binding cache or remove their bindings in a finally (R3).")
NOT_DECIDED = ["traces inherent to the design (symbols declared by a failing script stay declared)"]


REAL_KINDS = ("stmt", "test", "for", "with")     # not the pseudo nodes (except / finally entries carry the whole Try)


def _exc_safe(cfg, risky_pred, cleanup_pred):
    """True iff from every node satisfying risky_pred, every path to the RAISE exit passes a
    cleanup node."""
    bad = []
    for n in cfg.nodes:
        if n.kind in REAL_KINDS and risky_pred(n):
            if not cfg.must_pass(n.id, cfg.rse.id, cleanup_pred):
                bad.append(n)
    return bad


def _exc_safe_cond(cfg, risky_pred, cleanup_pred, flag):
    """As _exc_safe, for a cleanup that is needed only when `flag` is true: paths leaving a test of
    exactly `flag` through its false edge are not obligations."""
    bad = []
    for n in cfg.nodes:
        if n.kind not in REAL_KINDS or not risky_pred(n):
            continue
        seen = set()
        stack = [n.id]
        reached = False
        while stack:
            x = stack.pop()
            if x in seen:
                continue
            seen.add(x)
            if x == cfg.rse.id:
                reached = True
                break
            node = cfg.nodes[x]
            for (y, lab) in cfg.succ[x]:
                if x != n.id and cleanup_pred(cfg.nodes[y]):
                    continue
                if cleanup_pred(cfg.nodes[y]):
                    continue
                if node.kind == "test" and norm(node.ast) == flag and lab in ("F", "exc:F"):
                    continue
                stack.append(y)
        if reached:
            bad.append(n)
    return bad


def run(ctx):
    repo = get_repo()
    ctx.analysed["modules"] = ["pysmt/walkers/dag.py", "pysmt/formula.py", "pysmt/smtlib/parser/parser.py",
                               "all DagWalker subclasses overriding walk/iter_walk"]
    if ctx.want("R1"):
        rs = ctx.rule("R1", "a failing walk leaves no trace: handler failure injected at every call, next walks compared with a fresh walker")
        from . import walk_deep as wd
        res, others, _towers = wd.results(repo, ctx.tier, towers=False)
        ctx.analysed["walker_classes_interpreted"] = sorted(set(r["cls"] for r in res))
        ctx.analysed["walker_classes_not_interpreted"] = others
        for r in res:
            cq, f = repo.find_method(r["cls"], "walk")
            loc = method_loc(repo, cq, f) if f is not None else r["cls"]
            if r["kind"] != "ok":
                rs.unrec("%s on %s: %s" % (r["cls"], r["shape"], "; ".join(r["notes"])[:200]))
                continue
            if r["bad"]:
                kinds = sorted(set(b[1] for b in r["bad"]))
                for kd in kinds:
                    first = [b for b in r["bad"] if b[1] == kd][0]
                    ctx.finding(rs, "%s|stale-%s" % (r["cls"], kd),
                                "%s on %s: %s" % (r["cls"].split(".")[-1], r["shape"], first[2]), loc)
            elif r["injections"] == 0:
                rs.unrec("%s on %s: no injection point reached (%s)" % (r["cls"], r["shape"], "; ".join(r["notes"])[:160]))
            else:
                rs.ok({"class": r["cls"].split(".")[-1], "shape": r["shape"], "failure_points": r["injections"],
                       "after_failure": "same handler calls and results as a fresh walker" if r["one_shot"] else
                                        "no handler call a fresh walker would not make, same results"})
                for nte in r["notes"]:
                    rs.unrec("%s on %s: %s" % (r["cls"], r["shape"], nte))
        ctx.floor(rs, 30)

    if ctx.want("R2"):
        rs = ctx.rule("R2", "create_node registers the node only after its type check")
        cls, fn = repo.method(FM, "create_node")
        cfg = CFG(fn, may_raise=False)
        is_store = lambda n: (n.kind == "stmt" and isinstance(n.ast, ast.Assign) and
                              isinstance(n.ast.targets[0], ast.Subscript) and
                              is_self_attr(n.ast.targets[0].value, "formulae"))
        is_inc = lambda n: (n.kind == "stmt" and isinstance(n.ast, ast.AugAssign) and "_next_free_id" in norm(n.ast.target))
        is_check = lambda n: n.ast is not None and n.kind == "stmt" and any(
            attr_tail(c) in ("_do_type_check", "_do_type_check_real", "get_type") for c in calls_in(n.ast))
        stores = [n for n in cfg.nodes if is_store(n)]
        incs = [n for n in cfg.nodes if is_inc(n)]
        if not stores:
            ctx.error("R2", "no store into self.formulae in create_node")
        for s in stores:
            if cfg.dominated_by(s.id, is_check, follow=normal_only):
                rs.ok({"store": norm(s.ast), "after": "type check"})
            else:
                # is there an undo on the exceptional path?
                cfg2 = CFG(fn, may_raise=True)
                undo = lambda n: n.ast is not None and n.kind == "stmt" and (
                    ("del self.formulae[" in norm(n.ast)) or ("self.formulae.pop(" in norm(n.ast)))
                chk2 = [n for n in cfg2.nodes if is_check(n) and s.ast.lineno <= n.ast.lineno]
                undone = chk2 and all(cfg2.must_pass(c.id, cfg2.rse.id, undo) for c in chk2)
                if undone:
                    rs.ok({"store": norm(s.ast), "undone_on_failure": True})
                else:
                    ctx.finding(rs, "%s.create_node|store-before-check" % FM,
                                "the node is inserted into the hash-consing table before its type check and is "
                                "not removed when the check raises: the rejected (ill-typed) node stays registered",
                                method_loc(repo, cls, s.ast))
        for s in incs:
            if cfg.dominated_by(s.id, is_check, follow=normal_only):
                rs.ok({"id_advance": norm(s.ast), "after": "type check"})
            else:
                cfg2 = CFG(fn, may_raise=True)
                undo = lambda n: n.ast is not None and n.kind == "stmt" and "_next_free_id -= 1" in norm(n.ast)
                chk2 = [n for n in cfg2.nodes if is_check(n) and s.ast.lineno <= n.ast.lineno]
                undone = chk2 and all(cfg2.must_pass(c.id, cfg2.rse.id, undo) for c in chk2)
                if undone:
                    rs.ok({"id_advance": norm(s.ast), "undone_on_failure": True})
                else:
                    ctx.finding(rs, "%s.create_node|id-before-check" % FM,
                                "the id counter advances before the type check: every rejected construction "
                                "shifts the ids of later nodes, which changes id-ordered results (sorted "
                                "arguments in simplify, constant-array layout)", method_loc(repo, cls, s.ast))
        ctx.floor(rs, 2)

    if ctx.want("R4"):
        rs = ctx.rule("R4", "a rejected script leaves no trace: a later script is read as in a fresh environment (same parser and new parser)")
        from . import text_deep as td
        for name, how, kind, detail in td.failure_results(repo, ctx.tier):
            if kind == "valid":
                rs.ok({"rejected_script": name, "then": how, "result": detail})
            elif kind == "invalid":
                ctx.finding(rs, "parser|%s|%s" % (name, how), "%s (%s): %s" % (name, how, detail), "pysmt/smtlib/parser/parser.py")
            else:
                rs.unrec("%s (%s): %s" % (name, how, detail[:160]))
        ctx.floor(rs, 16)

    if ctx.want("R3"):
        rs = ctx.rule("R3", "parser entry points reset or unwind their bindings")
        for nm in ("get_script", "parse_model", "get_assignment_list"):
            cls, f = repo.find_method(PARSER, nm)
            if f is None:
                rs.unrec("parser entry point %s not found" % nm)
                continue
            cfg = CFG(f)
            reset = lambda n: n.ast is not None and n.kind == "stmt" and any(attr_tail(c) == "_reset" for c in calls_in(n.ast))
            parses = [n for n in cfg.nodes if n.ast is not None and any(
                attr_tail(c) in ("get_command_generator", "get_command", "get_expression") for c in calls_in(
                    n.ast.iter if isinstance(n.ast, ast.For) else n.ast))]
            binds = [c for c in calls_in(f) if attr_tail(c) in ("update", "bind") and "cache" in norm(c.func)]
            if nm == "get_script":
                if not parses:
                    rs.unrec("get_script: no parsing call recognised")
                elif all(cfg.dominated_by(p.id, reset, follow=normal_only) for p in parses):
                    rs.ok({"entry": nm, "reset_before_parsing": True})
                else:
                    ctx.finding(rs, "%s.get_script|no-reset" % PARSER,
                                "get_script parses without first resetting the binding cache: let/quantifier/"
                                "definition bindings left by a script that failed half-way are visible to the "
                                "next script", method_loc(repo, cls, f))
            else:
                # these bind only entries of environment-wide tables (declared symbols, custom type
                # declarations): re-binding the same name to the same object is idempotent, so a
                # leftover layer cannot change a later answer.  Checked: the bound map is such a table.
                srcs = [norm(c.args[0]) for c in binds if c.args]
                env_tables = all(("symbols" in x or "_custom_types_decl" in x) for x in srcs)
                if env_tables:
                    rs.ok({"entry": nm, "binds": srcs, "note": "environment tables only (idempotent)"})
                else:
                    rs.unrec("%s binds %s" % (nm, srcs))
        ctx.floor(rs, 2)
