"""C15 -- a failing call leaves no trace."""
import ast

from ..common import (get_repo, get_tables, short, norm, CFG, normal_only, method_loc, calls_in,
                      attr_tail, is_self_attr, parents)

DAG = "pysmt.walkers.dag.DagWalker"
FM = "pysmt.formula.FormulaManager"
PARSER = "pysmt.smtlib.parser.parser.SmtLibParser"

EXPLANATION = (
    "Abstract interpretation with failures injected.  Walkers: every DagWalker subclass the package instantiates is "
    "interpreted on shared skeletons with a failure injected at every handler call in turn; after the failure "
    "another formula and then the same formula are walked on the same instance: results, handler calls and memo "
    "must be those of a fresh walker (R1).  Manager: on the real, interpreted FormulaManager ~40 ill-sorted "
    "applications (every operator family; failures raised by the type checker as PysmtTypeError and as other "
    "exception types) are requested twice: each request raises, and the hash-consing table, the id counter, the "
    "symbol table and the constant caches are exactly what they were before (R2).  Parser: after each rejected "
    "script of a menu (undeclared symbol, ill-sorted term, malformed command, failure inside let / quantifier / "
    "define-fun bodies) a later script is read - by the same parser object and by a new one on the same "
    "environment - exactly as on a fresh environment (R4).  Text-interface solver: SmtLibSolver is interpreted "
    "against the reference solver process, which refuses one declaration (a sort outside its logic), so that "
    "add_assertion fails half-way; for 42 call sequences around the failing call every later call (assert, push, "
    "pop, solve, is_sat, get_value, get_model restricted to the symbols of the live assertions) has the outcome "
    "it has when the failing call is never made, and the command stream stays legal (R5).  Tracking solver: the real "
    "IncrementalTrackingSolver over a probe back-end that refuses one assertion and pushes beyond a depth, 60 call "
    "sequences: later verdicts, `assertions`, last_command / last_result, the backtrack points and the back-end's own "
    "stack are as when the refused call is never made (R6).  Printing services (serialize, str, to_smtlib in both "
    "forms): the printer's handler fails at every call in turn; the next texts, of another formula and of the same "
    "one, are those of a fresh environment (R7).  Human-readable parser: after a rejected text (undeclared names, "
    "truncated input) the same parser object reads later texts as a fresh one (R8).  Sort manager: ill-formed sort "
    "requests are rejected twice and leave its tables unchanged (part of R2).  Other rejected requests to the real manager (a fresh "
    "symbol over something that is not a sort, a symbol re-declared with another sort, an unknown name): rejected twice, every table, counter "
    "and flag of the manager unchanged, later fresh names and node ids as in a manager that never saw the request (part of R2).  One-shot "
    "queries that fail - is_sat whose assertion the back-end refuses or whose solve answers unknown, with and without the incremental "
    "interface - leave no level behind (part of R6).  A substitution that fails inside the body of a quantifier leaves the caller's map as it "
    "was (R9).  Unsupported operator: on the real manager a node of a custom node type (operators.new_node_type) is handed to the simplifier, "
    "the free-variables and size oracles and the substituter before a handler exists - the call fails -, then the handler is registered with "
    "Environment.add_dynamic_walker_function: later calls answer as in an environment where the failing call was never made (R10).")
NOT_DECIDED = ["traces inherent to the design (symbols declared by a failing script stay declared; symbols a failed "
               "add_assertion had already declared in the solver process stay declared and show up in later models)",
               "failures injected elsewhere than at handler calls (e.g. inside the walker's own loop)",
               "parse_model / get_assignment_list after a failed read (only get_script is interpreted after failures)"]


REAL_KINDS = ("stmt", "test", "for", "with")     # not the pseudo nodes (except / finally entries carry the whole Try)


def _exc_safe(cfg, risky_pred, cleanup_pred):
    """True iff from every node satisfying risky_pred, every path to the RAISE exit passes a
    cleanup node."""
    bad = []
    for n in cfg.nodes:
        if n.kind in REAL_KINDS and risky_pred(n):
            if not cfg.must_pass(n.id, cfg.rse.id, cleanup_pred):
                bad.append(n)
    return bad


def _exc_safe_cond(cfg, risky_pred, cleanup_pred, flag):
    """As _exc_safe, for a cleanup that is needed only when `flag` is true: paths leaving a test of
    exactly `flag` through its false edge are not obligations."""
    bad = []
    for n in cfg.nodes:
        if n.kind not in REAL_KINDS or not risky_pred(n):
            continue
        seen = set()
        stack = [n.id]
        reached = False
        while stack:
            x = stack.pop()
            if x in seen:
                continue
            seen.add(x)
            if x == cfg.rse.id:
                reached = True
                break
            node = cfg.nodes[x]
            for (y, lab) in cfg.succ[x]:
                if x != n.id and cleanup_pred(cfg.nodes[y]):
                    continue
                if cleanup_pred(cfg.nodes[y]):
                    continue
                if node.kind == "test" and norm(node.ast) == flag and lab in ("F", "exc:F"):
                    continue
                stack.append(y)
        if reached:
            bad.append(n)
    return bad


def run(ctx):
    repo = get_repo()
    ctx.analysed["modules"] = ["pysmt/walkers/dag.py", "pysmt/formula.py", "pysmt/smtlib/parser/parser.py",
                               "all DagWalker subclasses overriding walk/iter_walk"]
    if ctx.want("R1"):
        rs = ctx.rule("R1", "a failing walk leaves no trace: handler failure injected at every call, next walks compared with a fresh walker")
        from . import walk_deep as wd
        res, others, _towers = wd.results(repo, ctx.tier, towers=False)
        ctx.analysed["walker_classes_interpreted"] = sorted(set(r["cls"] for r in res))
        ctx.analysed["walker_classes_not_interpreted"] = others
        for r in res:
            cq, f = repo.find_method(r["cls"], "walk")
            loc = method_loc(repo, cq, f) if f is not None else r["cls"]
            if r["kind"] != "ok":
                rs.unrec("%s on %s: %s" % (r["cls"], r["shape"], "; ".join(r["notes"])[:200]))
                continue
            if r["bad"]:
                kinds = sorted(set(b[1] for b in r["bad"]))
                for kd in kinds:
                    first = [b for b in r["bad"] if b[1] == kd][0]
                    ctx.finding(rs, "%s|stale-%s" % (r["cls"], kd),
                                "%s on %s: %s" % (r["cls"].split(".")[-1], r["shape"], first[2]), loc)
            elif r["injections"] == 0:
                rs.unrec("%s on %s: no injection point reached (%s)" % (r["cls"], r["shape"], "; ".join(r["notes"])[:160]))
            else:
                rs.ok({"class": r["cls"].split(".")[-1], "shape": r["shape"], "failure_points": r["injections"],
                       "after_failure": "same handler calls and results as a fresh walker" if r["one_shot"] else
                                        "no handler call a fresh walker would not make, same results"})
                for nte in r["notes"]:
                    rs.unrec("%s on %s: %s" % (r["cls"], r["shape"], nte))
        ctx.floor(rs, 30)

    if ctx.want("R2"):
        rs = ctx.rule("R2", "real manager: a rejected construction leaves the tables and the id counter untouched and is rejected again")
        from . import mgr_deep
        mgr_deep.report(ctx, rs, mgr_deep.failure_results(), "pysmt/formula.py", 30)

    if ctx.want("R4"):
        rs = ctx.rule("R4", "a rejected script leaves no trace: a later script is read as in a fresh environment (same parser and new parser)")
        from . import text_deep as td
        for name, how, kind, detail in td.failure_results(repo, ctx.tier):
            if kind == "valid":
                rs.ok({"rejected_script": name, "then": how, "result": detail})
            elif kind == "invalid":
                ctx.finding(rs, "parser|%s|%s" % (name, how), "%s (%s): %s" % (name, how, detail), "pysmt/smtlib/parser/parser.py")
            else:
                rs.unrec("%s (%s): %s" % (name, how, detail[:160]))
        ctx.floor(rs, 16)

    if ctx.want("R9"):
        rs = ctx.rule("R9", "a substitution that fails inside the body of a quantifier leaves the caller's map as it was: later calls with that map answer as if the failing call had never been made")
        from . import c05_deep
        for cls, case, kind, detail in c05_deep.map_reuse_results():
            nm = cls.split(".")[-1]
            if kind == "ok":
                rs.ok({"substituter": nm, "first call": case, "outcome": detail})
            elif kind == "bad":
                ctx.finding(rs, "map|%s|%s" % (nm, case), "%s, first call: %s: %s" % (nm, case, detail), "pysmt/substituter.py")
            else:
                rs.unrec("%s %s: %s" % (nm, case, detail))
        ctx.floor(rs, 8)

    if ctx.want("R10"):
        rs = ctx.rule("R10", "unsupported operator: a service that failed on a node of a custom node type works once its handler is registered "
                             "(Environment.add_dynamic_walker_function), as in an environment where the failing call was never made")
        from . import mgr_deep
        mgr_deep.report(ctx, rs, mgr_deep.dwf_results(), "pysmt/walkers/generic.py", 4)

    if ctx.want("R8"):
        rs = ctx.rule("R8", "human-readable parser object: after a text it rejected (names not declared yet, truncated text) it reads later texts as a fresh parser does")
        from . import text_deep as td
        for tag, kind, detail in td.hr_failure_results(repo, ctx.tier):
            if kind == "valid":
                rs.ok({"case": tag, "result": detail})
            elif kind == "invalid":
                ctx.finding(rs, "hr-after-failure|%s" % tag, "%s: %s" % (tag, detail), "pysmt/parsing.py")
            else:
                rs.unrec("%s: %s" % (tag, detail[:160]))
        ctx.floor(rs, 4)

    if ctx.want("R7"):
        rs = ctx.rule("R7", "printing services: after the printer failed at a handler call (every call in turn) the next texts are those of a fresh environment")
        from . import walk_deep as wd
        for r in wd.print_failure_results(repo, ctx.tier):
            if r["kind"] != "ok":
                rs.unrec("%s on %s: %s" % (r["svc"], r["shape"], "; ".join(r["notes"])[:200]))
            elif r["bad"]:
                ctx.finding(rs, "print|%s|%s" % (r["svc"], r["shape"]), "%s on %s: %s" % (r["svc"], r["shape"], r["bad"][0][1]), "pysmt/printers.py")
            elif r["injections"] == 0:
                rs.unrec("%s on %s: no injection point reached" % (r["svc"], r["shape"]))
            else:
                rs.ok({"service": r["svc"], "skeleton": r["shape"], "failure_points": r["injections"]})
            for nte in r["notes"][:2]:
                rs.unrec("%s on %s: %s" % (r["svc"], r["shape"], nte))
        ctx.floor(rs, 6)

    if ctx.want("R6"):
        rs = ctx.rule("R6", "tracking solver: after a call the back-end refused (an assertion, a push) every later call, the assertion list, the recorded last command / result and both stacks are as when the refused call is never made")
        from . import solver_deep as sd
        for r_ in sd.its_failure_results(repo, ctx.tier):
            seq, kind, got, want = r_[:4]
            tag = " ; ".join(sd.ITS_F_NAMES[x] for x in seq) + ((" [solver options: %s]" % r_[4]) if len(r_) > 4 else "")
            key = "tracking-solver|%s%s" % (",".join(seq), ("|" + r_[4]) if len(r_) > 4 else "")
            if kind != "ok":
                rs.unrec("%s: %s" % (tag, str(got)[:160]))
                continue
            diffs = [(a, b) for a, b in zip(got, want) if a != b]
            if len(got) != len(want) or diffs:
                a, b = diffs[0] if diffs else (got[-1], None)
                what = "outcome" if b is None or a[1] != b[1] else ("assertion list" if a[2] != b[2] else "stack depth")
                ctx.finding(rs, key, "%s: after the refused call, at '%s' the %s is %r; had the refused call never been made: %r"
                            % (tag, sd.ITS_F_NAMES.get(a[0], a[0]), what, a[1:] if what != "outcome" else a[1], (b[1:] if what != "outcome" else b[1]) if b else "-"),
                            "pysmt/solvers/solver.py")
            else:
                rs.ok({"calls": tag, "result": "every later call, the assertion list and the stacks as without the refused call"})
        ctx.floor(rs, 30)

    if ctx.want("R5"):
        rs = ctx.rule("R5", "text-interface solver: after a call that failed half-way (a declaration refused by the solver process) every later call has the outcome it has when the failing call is never made")
        from . import solver_deep as sd
        for seq, kind, got, want, illegal in sd.text_failure_results(repo, ctx.tier):
            tag = " ; ".join(sd.F_NAMES[x] for x in seq)
            key = "text-solver|%s" % ",".join(seq)
            if kind != "ok":
                rs.unrec("%s: %s" % (tag, str(got)[:160]))
                continue
            diffs = [(a, b) for a, b in zip(got, want) if a != b]
            if len(got) != len(want) or diffs:
                a, b = diffs[0] if diffs else (got[-1], None)
                ctx.finding(rs, key, "%s: after the failed call, %s %s %r; had the failing call never been made it %s %r%s"
                            % (tag, sd.F_NAMES.get(a[0], a[0]), a[1][0], a[1][1], b[1][0] if b else "-", b[1][1] if b else "-",
                               (" [solver: %s]" % illegal[0]) if illegal else ""), "pysmt/smtlib/solver.py")
            elif illegal:
                ctx.finding(rs, key + "|stream", "%s: the command stream after the failed call is not legal: %s" % (tag, illegal[0]),
                            "pysmt/smtlib/solver.py")
            else:
                rs.ok({"calls": tag, "result": "every later call as without the failing call; legal stream"})
        ctx.floor(rs, 20)
