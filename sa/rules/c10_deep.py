"""C10 deep rules: each rewriter interpreted on operator skeletons over opaque leaves; result
compared with the input by complete truth tables (Boolean leaves, bound Boolean variables) and with
the advertised shape."""
from ..common import get_repo, parallel_map, method_loc
from .. import proc
from ..absint import AbsRaise
from ..proc import Shape, S, BOOL, INT

PROCS = {
    "nnf": ("pysmt.rewritings.NNFizer", "convert", proc.pred_nnf),
    "aig": ("pysmt.rewritings.AIGer", "convert", proc.pred_aig),
    "prenex": ("pysmt.rewritings.PrenexNormalizer", "normalize", proc.pred_prenex),
    "shannon": ("pysmt.solvers.qelim.ShannonQuantifierEliminator", "eliminate_quantifiers", proc.pred_qf),
    "selfsub": ("pysmt.solvers.qelim.SelfSubstitutionQuantifierEliminator", "eliminate_quantifiers", proc.pred_qf),
}


def _job(job):
    name, shape = job[:2]
    history = len(job) > 2
    cls, meth, pred = PROCS[name]

    def call(w, it, f):
        if history:
            # earlier in the same environment: a substitution that fails half-way (the rebuilt term is ill-typed) on a
            # formula that shares sub-terms with this one, handled by the caller
            y_, z_, n_ = w.symbol("y", BOOL), w.symbol("z", BOOL), w.symbol("n", INT)
            for hf in (w.app("And", w.app("Or", y_, z_), w.symbol("w", BOOL)), w.app("And", w.symbol("w", BOOL), w.app("Or", y_, z_))):
                for val in (True, False):
                    try:
                        it.call(it.getattr(hf, "substitute"), [{y_: w.bool_const(val), w.symbol("w", BOOL): n_}])
                    except AbsRaise:
                        pass
        wk = w.new_walker(cls, w.env)
        return it.call(it.getattr(wk, meth), [f])
    # prenex and the eliminators ask the environment's free-variables service: it is the real class here, not the analyser's model
    res = proc.run_proc(shape, call, shape_pred=pred, world_cls=proc.TypedWorld, services="full" if name in ("prenex", "shannon", "selfsub") else True)
    return [(name, repr(shape) + (" (after a failed substitution)" if history else ""), r.kind, str(r.detail), r.result) for r in res]


def _partition_job(job):
    fn, shape = job

    def call(w, it, f):
        g = it.module_global(w.repo.modules["pysmt.rewritings"], fn)
        parts = list(it.iterate(it.call(g, [f])))
        return parts

    def post(w, f, parts, facts):
        top = "AND" if fn == "conjunctive_partition" else "OR"
        for x in parts:
            if w.opname(x) == top:
                return proc.ProcResult(shape, "shape", "%s yields the %s node %s" % (fn, top, proc.sc.node_str(w, x)))
        whole = w.app("And" if top == "AND" else "Or", parts)
        v = proc.sc.validate(w, f, whole, facts, repr(shape))
        return proc.ProcResult(shape, v.kind, v.detail, proc.sc.node_str(w, whole))
    res = proc.run_proc(shape, call, post=post, world_cls=proc.TypedWorld)
    return [(fn, repr(shape), r.kind, str(r.detail), r.result) for r in res]


def _prop_job(job):
    """propagate_toplevel under both substituter classes an environment may be configured with, with and without the
    final simplification"""
    shape, subst, simp = job if isinstance(job, tuple) else (job, None, True)

    def call(w, it, f):
        if subst:
            w.env.attrs["_substituter"] = w.new_walker(subst, w.env)
        g = it.module_global(w.repo.modules["pysmt.rewritings"], "propagate_toplevel")
        return it.call(g, [f], {"env": w.env, "do_simplify": simp})
    res = proc.run_proc(shape, call, world_cls=proc.TypedWorld, services="full" if subst else True)
    tag = "propagate_toplevel" if not subst else "propagate_toplevel [%s%s]" % (subst.split(".")[-1], "" if simp else ", do_simplify=False")
    return [("propagate_toplevel", "%r%s" % (shape, tag[18:]), r.kind, str(r.detail), r.result) for r in res]


def _dist_job(shape):
    def call(w, it, f):
        wk = w.new_walker("pysmt.rewritings.TimesDistributor", w.env)
        return it.call(it.getattr(wk, "walk"), [f])
    res = proc.run_proc(shape, call, world_cls=proc.TypedWorld)
    return [("times_distributor", repr(shape), r.kind, str(r.detail), r.result) for r in res]


def dist_shapes():
    """Arithmetic terms (inside atoms) for TimesDistributor: sums, differences and n-ary products in every nesting,
    constant factors -1 / 1 / 0 at every position, over Int and over Real."""
    from fractions import Fraction as F
    out = []
    for so, mk in ((INT, lambda v: ("lit", v, INT)), (proc.REAL, lambda v: ("lit", F(v), proc.REAL))):
        x, y, z, w_ = S("x", so), S("y", so), S("z", so), S("w", so)
        m1, one, two, three, zero = mk(-1), mk(1), mk(2), mk(3), mk(0)
        terms = [
            ("Times", ("Plus", x, one), three), ("Times", ("Plus", x, y), ("Minus", z, one)), ("Times", x, y),
            ("Times", ("Plus", x, one), ("Minus", y, one), z, ("Plus", w_, ("Minus", three, z))),
            ("Minus", x, ("Minus", y, z)), ("Minus", x, ("Times", m1, y)), ("Minus", x, ("Times", m1, y, z)),
            ("Minus", x, ("Plus", w_, ("Times", m1, y, z))), ("Minus", ("Plus", x, y), ("Times", m1, three, z, w_)),
            ("Minus", w_, ("Times", m1, ("Plus", x, y), z)), ("Minus", x, ("Times", y, m1, z)), ("Minus", x, ("Times", m1, m1)),
            ("Minus", x, ("Times", m1, ("Times", m1, y))), ("Minus", ("Minus", x, y), ("Minus", z, w_)),
            ("Times", m1, ("Minus", x, ("Times", two, y))), ("Times", ("Minus", x, y), ("Minus", x, y)),
            ("Plus", ("Plus", x, y), ("Times", two, ("Plus", z, ("Plus", x, one)))), ("Times", two, ("Times", ("Plus", x, y), z)),
            ("Times", zero, ("Plus", x, y)), ("Minus", zero, ("Times", m1, x, y)), ("Minus", ("Times", m1, x, y), ("Times", m1, y, z)),
            ("Times", ("Plus", x, ("Times", m1, y, z)), m1), ("Minus", x, ("Minus", y, ("Times", m1, z, w_))),
            ("Plus", x, ("Ite", ("LT", x, y), ("Times", two, ("Plus", x, y)), ("Minus", y, ("Times", m1, x, z)))),
        ]
        for t in terms:
            out.append(("LT", t, zero))
            out.append(("Equals", t, w_))
        out.append(("And", ("LT", ("Minus", w_, ("Times", m1, ("Plus", x, one), z)), zero), ("LT", x, y)))
    return [Shape(t) for t in out]


def prop_shapes():
    x, y, z = S("x", INT), S("y", INT), S("z", INT)
    a = S("a")
    five, three = ("lit", 5, INT), ("lit", 3, INT)
    sh = [("And", ("Equals", x, five), ("Equals", x, y)), ("And", ("Equals", x, y), ("Equals", x, five)),
          ("And", ("Equals", x, y), ("Equals", y, z), ("LT", x, three)), ("And", ("Equals", x, five), ("Equals", x, three)),
          ("And", ("Equals", x, five), ("Equals", y, five), ("LT", x, y)), ("And", ("Equals", five, x), a),
          ("And", ("Equals", x, y), ("Equals", y, five), ("Equals", z, x), ("LT", z, three)),
          ("And", ("Equals", y, x), ("Equals", five, y), ("Or", a, ("LT", x, three))),
          ("And", a, ("Or", ("Equals", x, five), ("LT", x, three))), ("Equals", x, five),
          ("And", ("Equals", x, y), ("Equals", z, three), ("Equals", y, z), ("LT", ("Plus", x, y), z))]
    return [Shape(t) for t in sh]


def prop_shapes_q():
    """the propagated variable is bound again by a quantifier of the same formula; quantifier alternations next to a
    definition (only the free occurrences are replaced; the binders stay binders)"""
    B2 = ("BV", 2)
    x, y, z = S("x", B2), S("y", B2), S("z", B2)
    one, two = ("lit", 1, B2), ("lit", 2, B2)
    qx, qy = [("x", B2)], [("y", B2)]
    sh = [("And", ("Equals", x, one), ("exists", qx, ("BVULT", two, x))),
          ("And", ("Equals", x, one), ("forall", qx, ("BVULE", x, y)), ("BVULT", x, two)),
          ("And", ("Equals", x, y), ("exists", qx, ("Equals", x, z)), ("BVULT", y, two)),
          ("And", ("Equals", y, one), ("exists", qx, ("forall", qy, ("BVULE", x, y))), ("BVULT", y, x)),
          ("And", ("Equals", z, one), ("forall", qx, ("exists", qy, ("Equals", x, y)))),
          ("And", ("Equals", z, one), ("exists", qx, ("forall", qy, ("Or", ("Equals", x, y), ("Equals", y, z))))),
          ("And", ("Equals", z, x), ("forall", qx, ("Or", ("Equals", z, one), ("exists", [("z", B2)], ("BVULT", x, z))))),
          # the representative of a class of equal variables is itself bound further down: replacing the others by it must not
          # put it under its binder (both creation orders: the representative is the older symbol)
          ("And", ("Equals", y, x), ("forall", qx, ("BVULE", x, y))),
          ("And", ("forall", qx, ("BVULE", x, y)), ("Equals", x, y)),
          ("And", ("Equals", x, y), ("exists", qy, ("BVULT", x, y)), ("forall", qx, ("BVULE", x, y))),
          ("And", ("Equals", y, z), ("Equals", z, x), ("exists", qx, ("And", ("BVULT", x, z), ("forall", [("z", B2)], ("BVULE", y, z)))))]
    return [Shape(t) for t in sh]


def run(ctx):
    repo = get_repo()
    if not ctx.want("R2"):
        return
    rs = ctx.rule("R2", "rewriters: result equivalent to the input and of the advertised shape (per operator skeleton)")
    jobs = []
    bshapes = proc.boolean_shapes()
    qshapes = proc.quantified_shapes()
    if ctx.tier == "thorough":
        qshapes = proc.in_contexts(qshapes)
        bshapes = proc.in_contexts(bshapes, limit=40)
    for sh in bshapes:
        jobs.append(("nnf", sh))
        jobs.append(("aig", sh))
    for sh in qshapes:
        jobs += [("nnf", sh), ("aig", sh), ("prenex", sh), ("shannon", sh), ("selfsub", sh)]
    for sh in bshapes[:40]:
        jobs.append(("prenex", sh))
    # symbols spelled like the names alpha-renaming generates (same type): the renamed variable must still be fresh
    fv0, fv1 = S("FV0"), S("FV1")
    a_, b_ = S("a"), S("b")
    qa_ = [("a", BOOL)]
    for t in [("And", a_, ("exists", qa_, ("Not", ("Iff", a_, fv0)))), ("And", a_, ("exists", qa_, ("Not", ("Iff", a_, fv1)))),
              ("Or", ("forall", qa_, ("Or", a_, fv0)), ("And", a_, fv1)), ("And", ("exists", qa_, ("And", a_, fv0)), ("exists", qa_, ("Iff", a_, fv1)), a_),
              ("Implies", ("forall", qa_, ("Or", a_, b_)), ("And", a_, fv0, ("exists", [("b", BOOL)], ("Iff", b_, fv1))))]:
        for nm in ("prenex", "nnf", "aig", "shannon", "selfsub"):
            jobs.append((nm, Shape(t)))
    # quantifier elimination after a failed substitution over a shared sub-term
    y_, z_, q_ = S("y"), S("z"), S("q")
    for t in [("forall", [("y", BOOL)], ("And", ("Or", y_, z_), q_)), ("exists", [("y", BOOL)], ("And", ("Or", y_, z_), q_)),
              ("And", ("Or", y_, z_), ("forall", [("y", BOOL)], ("Implies", ("Or", y_, z_), q_)))]:
        for nm in ("shannon", "selfsub", "prenex", "nnf"):
            jobs.append((nm, Shape(t), "after a failed substitution"))
    # wide n-ary nodes (every arity up to 12, operands of both polarities), alone and under a quantifier
    vs = [S("v%d" % i) for i in range(12)]
    for k in range(3, 13):
        ops_ = tuple(v if i % 3 else ("Not", v) for i, v in enumerate(vs[:k]))
        for conn in ("And", "Or"):
            wsh = Shape((conn,) + ops_)
            jobs += [("nnf", wsh), ("aig", wsh)]
            if k in (7, 11):
                qsh = Shape(("forall", [("v0", BOOL)], (conn,) + ops_))
                jobs += [("nnf", qsh), ("aig", qsh), ("prenex", qsh), ("shannon", qsh), ("selfsub", qsh)]
    outs = parallel_map(_job, jobs)
    pj = []
    for sh in bshapes:
        pj += [("conjunctive_partition", sh), ("disjunctive_partition", sh)]
    a, b, c = S("a"), S("b"), S("c")
    for t in [("And", a, ("And", b, c)), ("And", ("And", a, b), ("And", a, c)), ("Or", a, ("Or", b, ("Or", a, c))),
              ("And", ("Or", a, b), ("And", c, ("Or", a, b))), ("Or", ("And", a, b), ("Or", c, ("And", a, b)))]:
        pj += [("conjunctive_partition", Shape(t)), ("disjunctive_partition", Shape(t))]
    outs += parallel_map(_partition_job, pj)
    outs += parallel_map(_prop_job, prop_shapes())
    outs += parallel_map(_prop_job, [(sh, cls, simp) for sh in prop_shapes_q() + prop_shapes()[:4]
                                     for cls in ("pysmt.substituter.MGSubstituter", "pysmt.substituter.MSSubstituter")
                                     for simp in (True, False)])
    outs += parallel_map(_dist_job, dist_shapes())
    where = {"nnf": "pysmt.rewritings.NNFizer", "aig": "pysmt.rewritings.AIGer", "prenex": "pysmt.rewritings.PrenexNormalizer",
             "shannon": PROCS["shannon"][0], "selfsub": PROCS["selfsub"][0],
             "conjunctive_partition": "pysmt.rewritings", "disjunctive_partition": "pysmt.rewritings",
             "propagate_toplevel": "pysmt.rewritings", "times_distributor": "pysmt.rewritings"}
    counts = {}
    for res in outs:
        for name, shape, kind, detail, result in res:
            counts[(name, kind)] = counts.get((name, kind), 0) + 1
            key = "%s|%s" % (name, shape)
            loc = "pysmt/rewritings.py" if name in ("nnf", "aig", "prenex", "conjunctive_partition", "disjunctive_partition", "propagate_toplevel", "times_distributor") \
                else "pysmt/solvers/qelim.py"
            if kind == "valid":
                rs.ok({"procedure": name, "shape": shape, "result": result, "checked": detail})
            elif kind == "vacuous":
                continue
            elif kind == "invalid":
                ctx.finding(rs, key + "|not-equivalent",
                            "%s(%s) returns %s which is not equivalent: %s" % (name, shape, result, detail), loc)
            elif kind == "shape":
                ctx.finding(rs, key + "|shape", "%s(%s) returns %s: %s" % (name, shape, result, detail), loc)
            elif kind == "sort":
                ctx.finding(rs, key + "|sort", "%s(%s): %s" % (name, shape, detail), loc)
            elif kind == "raises":
                # a rewriter rejecting a formula of its input fragment
                if name in ("shannon", "selfsub", "prenex", "nnf", "aig") and "NotImplementedError" not in detail:
                    ctx.finding(rs, key + "|raises", "%s(%s) raises %s" % (name, shape, detail), loc)
                else:
                    rs.unrec("%s(%s) raises %s" % (name, shape, detail))
            else:
                rs.unrec("%s(%s): %s" % (name, shape, detail[:100]))
    ctx.analysed["procedure_shape_outcomes"] = dict(("%s:%s" % k, v) for k, v in sorted(counts.items()))
    rs.notes.append("equivalence decided by complete truth tables over the opaque Boolean leaves (theory atoms over "
                    "Int symbols range over {-1,0,2}), bound Boolean variables enumerated")
    ctx.floor(rs, 400)
