"""Models of the few standard-library classes the analysed code uses as plain data carriers
(io.StringIO, collections.deque).  They hold concrete Python data; abstract text is refused."""
from .absint import Abs, AbsRaise, Unsupported


class ExtModel(Abs):
    METHODS = ()

    def method(self, name):
        if name in self.METHODS:
            return getattr(self, "m_" + name)
        return None


class StringIOModel(ExtModel):
    METHODS = ("write", "getvalue", "read", "readline", "readlines", "close", "seek", "tell", "flush",
               "__enter__", "__exit__", "truncate")

    def __init__(self, init=""):
        self.buf = init
        self.pos = 0
        self.closed = False

    def __repr__(self):
        return "StringIO(%r)" % self.buf[:30]

    def m_write(self, it, a, k):
        s = a[0]
        if not isinstance(s, str):
            hit = getattr(it.domain, "to_text", None)
            s2 = hit(it, s) if hit else None
            if not isinstance(s2, str):
                raise Unsupported("write of abstract text %r" % (s,))
            s = s2
        self.buf = self.buf[:self.pos] + s + self.buf[self.pos + len(s):]
        self.pos += len(s)
        return len(s)

    def m_getvalue(self, it, a, k):
        return self.buf

    def m_read(self, it, a, k):
        n = a[0] if a and a[0] is not None else -1
        if n < 0:
            r = self.buf[self.pos:]
        else:
            r = self.buf[self.pos:self.pos + n]
        self.pos += len(r)
        return r

    def m_readline(self, it, a, k):
        i = self.buf.find("\n", self.pos)
        end = len(self.buf) if i < 0 else i + 1
        r = self.buf[self.pos:end]
        self.pos = end
        return r

    def m_readlines(self, it, a, k):
        return self.lines()

    def lines(self):
        out = []
        while self.pos < len(self.buf):
            out.append(self.m_readline(None, [], {}))
        return out

    def m_close(self, it, a, k):
        self.closed = True

    def m_seek(self, it, a, k):
        self.pos = a[0]
        return self.pos

    def m_tell(self, it, a, k):
        return self.pos

    def m_flush(self, it, a, k):
        return None

    def m_truncate(self, it, a, k):
        self.buf = self.buf[:self.pos]

    def m___enter__(self, it, a, k):
        return self

    def m___exit__(self, it, a, k):
        self.closed = True
        return False


class DequeModel(ExtModel):
    METHODS = ("append", "appendleft", "pop", "popleft", "clear", "extend", "__len__")

    def __init__(self, items=()):
        self.items = list(items)

    def __repr__(self):
        return "deque(%r)" % (self.items,)

    def m_append(self, it, a, k):
        self.items.append(a[0])

    def m_appendleft(self, it, a, k):
        self.items.insert(0, a[0])

    def m_pop(self, it, a, k):
        if not self.items:
            raise AbsRaise("IndexError", ("pop from an empty deque",))
        return self.items.pop()

    def m_popleft(self, it, a, k):
        if not self.items:
            raise AbsRaise("IndexError", ("pop from an empty deque",))
        return self.items.pop(0)

    def m_clear(self, it, a, k):
        self.items = []

    def m_extend(self, it, a, k):
        self.items.extend(it.iterate(a[0]))

    def m___len__(self, it, a, k):
        return len(self.items)
