"""Statement-level control-flow graph for one function (Python 3.12 statement kinds).

Nodes are simple statements and the tests/headers of compound statements.  Edges carry a label:
None (fall through), 'T'/'F' (test outcome), 'iter'/'done' (for header), 'exc' (exceptional).
Three distinguished exits: RETURN (normal return or falling off the end), RAISE (exception leaves
the function), plus the entry node.  With may_raise=True every statement that contains a call,
subscript, attribute access or arithmetic gets an 'exc' edge to the innermost handler / finally /
RAISE, which is what the exception-safety rules need; path rules about normal exits use
may_raise=False and see only explicit `raise`.
"""
import ast


class Node(object):
    __slots__ = ("id", "kind", "ast", "label")

    def __init__(self, nid, kind, node=None, label=None):
        self.id = nid
        self.kind = kind      # entry | return_exit | raise_exit | stmt | test | for | with | except | finally | join
        self.ast = node
        self.label = label

    def __repr__(self):
        if self.ast is not None:
            try:
                txt = ast.unparse(self.ast).split("\n")[0][:60]
            except Exception:
                txt = type(self.ast).__name__
            return "<%d %s L%s %s>" % (self.id, self.kind, getattr(self.ast, "lineno", "?"), txt)
        return "<%d %s>" % (self.id, self.kind)


class _Frame(object):
    """Where control goes on break / continue / return / exception inside the current construct."""

    def __init__(self, brk=None, cont=None, exc=None, fin=None):
        self.brk = brk
        self.cont = cont
        self.exc = exc
        self.fin = fin        # list of finally-body statement lists to run on abrupt exit


class CFG(object):
    def __init__(self, func, may_raise=False):
        self.func = func
        self.may_raise = may_raise
        self.nodes = []
        self.succ = {}
        self.pred = {}
        self.entry = self._new("entry")
        self.ret = self._new("return_exit")
        self.rse = self._new("raise_exit")
        # stacks
        self._loops = []      # (break_target_collector, continue_target)
        self._handlers = [self.rse.id]   # innermost exception target
        self._finals = []     # pending finally bodies (innermost last), each: (stmts, handler_depth)
        ends = self._block(func.body, [(self.entry.id, None)])
        for (n, lab) in ends:
            self._edge(n, self.ret.id, lab)

    # -------------------------------------------------------------- construction
    def _new(self, kind, node=None, label=None):
        n = Node(len(self.nodes), kind, node, label)
        self.nodes.append(n)
        self.succ[n.id] = []
        self.pred[n.id] = []
        return n

    def _edge(self, a, b, label=None):
        if (b, label) not in self.succ[a]:
            self.succ[a].append((b, label))
            self.pred[b].append((a, label))

    def _connect(self, ins, nid):
        for (p, lab) in ins:
            self._edge(p, nid, lab)

    def _can_raise(self, node):
        if not self.may_raise:
            return False
        if callable(self.may_raise):
            return bool(self.may_raise(node))
        for n in ast.walk(node):
            if isinstance(n, (ast.Call, ast.Subscript, ast.Attribute, ast.BinOp, ast.Await,
                              ast.Yield, ast.YieldFrom, ast.Compare)):
                return True
        return False

    def _exc_edge(self, nid):
        self._edge(nid, self._handlers[-1], "exc")

    def _block(self, stmts, ins):
        cur = ins
        for st in stmts:
            if not cur:
                # unreachable code still gets nodes (so anchors can be found) but no in-edges
                pass
            cur = self._stmt(st, cur)
        return cur

    def _stmt(self, st, ins):
        if isinstance(st, (ast.FunctionDef, ast.AsyncFunctionDef, ast.ClassDef)):
            n = self._new("stmt", st)
            self._connect(ins, n.id)
            return [(n.id, None)]
        if isinstance(st, ast.Return):
            n = self._new("stmt", st)
            self._connect(ins, n.id)
            if st.value is not None and self._can_raise(st.value):
                self._exc_edge(n.id)
            self._abrupt([(n.id, None)], self.ret.id)
            return []
        if isinstance(st, ast.Raise):
            n = self._new("stmt", st)
            self._connect(ins, n.id)
            self._edge(n.id, self._handlers[-1], "exc")
            return []
        if isinstance(st, ast.Break):
            n = self._new("stmt", st)
            self._connect(ins, n.id)
            coll, _cont, fdepth = self._loops[-1]
            # run finally bodies entered since the loop started
            outs = self._through_finals([(n.id, None)], fdepth)
            coll.extend(outs)
            return []
        if isinstance(st, ast.Continue):
            n = self._new("stmt", st)
            self._connect(ins, n.id)
            _coll, cont, fdepth = self._loops[-1]
            outs = self._through_finals([(n.id, None)], fdepth)
            for (p, lab) in outs:
                self._edge(p, cont, lab)
            return []
        if isinstance(st, ast.If):
            t = self._new("test", st.test)
            self._connect(ins, t.id)
            if self._can_raise(st.test):
                self._exc_edge(t.id)
            a = self._block(st.body, [(t.id, "T")])
            b = self._block(st.orelse, [(t.id, "F")]) if st.orelse else [(t.id, "F")]
            return a + b
        if isinstance(st, ast.While):
            t = self._new("test", st.test)
            self._connect(ins, t.id)
            if self._can_raise(st.test):
                self._exc_edge(t.id)
            brk = []
            self._loops.append((brk, t.id, len(self._finals)))
            body_out = self._block(st.body, [(t.id, "T")])
            self._loops.pop()
            for (p, lab) in body_out:
                self._edge(p, t.id, lab)
            const_true = isinstance(st.test, ast.Constant) and bool(st.test.value)
            outs = [] if const_true else [(t.id, "F")]
            if st.orelse:
                outs = self._block(st.orelse, outs)
            return outs + brk
        if isinstance(st, (ast.For, ast.AsyncFor)):
            h = self._new("for", st)
            self._connect(ins, h.id)
            if self._can_raise(st.iter) or self.may_raise is True:
                self._exc_edge(h.id)
            brk = []
            self._loops.append((brk, h.id, len(self._finals)))
            body_out = self._block(st.body, [(h.id, "iter")])
            self._loops.pop()
            for (p, lab) in body_out:
                self._edge(p, h.id, lab)
            outs = [(h.id, "done")]
            if st.orelse:
                outs = self._block(st.orelse, outs)
            return outs + brk
        if isinstance(st, (ast.With, ast.AsyncWith)):
            w = self._new("with", st)
            self._connect(ins, w.id)
            if self.may_raise is True or (callable(self.may_raise) and any(self.may_raise(i.context_expr) for i in st.items)):
                self._exc_edge(w.id)
            return self._block(st.body, [(w.id, None)])
        if isinstance(st, ast.Try) or (hasattr(ast, "TryStar") and isinstance(st, ast.TryStar)):
            return self._try(st, ins)
        if isinstance(st, ast.Match):
            t = self._new("test", st.subject)
            self._connect(ins, t.id)
            outs = []
            for case in st.cases:
                outs += self._block(case.body, [(t.id, "case")])
            outs.append((t.id, "nomatch"))
            return outs
        # simple statement
        n = self._new("stmt", st)
        self._connect(ins, n.id)
        if isinstance(st, ast.Assert):
            self._edge(n.id, self._handlers[-1], "exc")
        elif self._can_raise(st):
            self._exc_edge(n.id)
        return [(n.id, None)]

    def _through_finals(self, ins, fdepth):
        cur = ins
        pend = self._finals[fdepth:]
        for stmts, hdepth in reversed(pend):
            saved_h, saved_f = self._handlers, self._finals
            self._handlers = saved_h[:hdepth]
            self._finals = saved_f[:saved_f.index((stmts, hdepth))]
            cur = self._block(stmts, cur)
            self._handlers, self._finals = saved_h, saved_f
        return cur

    def _abrupt(self, ins, target):
        outs = self._through_finals(ins, 0)
        for (p, lab) in outs:
            self._edge(p, target, lab)

    def _try(self, st, ins):
        outer_handler = self._handlers[-1]
        has_fin = bool(st.finalbody)
        # exceptional entry into finally (re-raises afterwards)
        fin_exc_entry = None
        if has_fin:
            fin_exc_entry = self._new("finally", st, "exc")
        # dispatcher for except clauses
        disp = None
        if st.handlers:
            disp = self._new("except", st, "dispatch")
        # body
        body_target = disp.id if disp else fin_exc_entry.id
        hdepth = len(self._handlers)
        if has_fin:
            self._finals.append((st.finalbody, hdepth))
        self._handlers.append(body_target)
        body_out = self._block(st.body, ins)
        self._handlers.pop()
        # else clause: exceptions there are not caught by this try's handlers
        after_handlers_target = fin_exc_entry.id if has_fin else outer_handler
        self._handlers.append(after_handlers_target)
        if st.orelse:
            body_out = self._block(st.orelse, body_out)
        outs = list(body_out)
        if disp is not None:
            catches_all = False
            for h in st.handlers:
                hn = self._new("except", h)
                self._edge(disp.id, hn.id, "exc")
                outs += self._block(h.body, [(hn.id, None)])
                if h.type is None or (isinstance(h.type, ast.Name) and h.type.id in ("BaseException", "Exception")):
                    catches_all = h.type is None or h.type.id == "BaseException"
            if not catches_all:
                self._edge(disp.id, after_handlers_target, "exc")
        self._handlers.pop()
        if has_fin:
            self._finals.pop()
            # normal completion runs finally then continues
            outs = self._block(st.finalbody, outs)
            # exceptional completion runs finally then propagates
            self._handlers.append(outer_handler)
            eouts = self._block(st.finalbody, [(fin_exc_entry.id, None)])
            self._handlers.pop()
            for (p, lab) in eouts:
                self._edge(p, outer_handler, "exc" if lab in (None, "exc") else "exc:" + lab)
        return outs

    # -------------------------------------------------------------- queries
    def stmt_nodes(self, pred=None):
        return [n for n in self.nodes if n.ast is not None and (pred is None or pred(n))]

    def reachable(self, src, avoid=None, follow=None):
        """Set of node ids reachable from src (src itself included) without entering nodes for
        which avoid(node) is true; follow(label) may prune edges."""
        seen = set()
        stack = [src]
        while stack:
            x = stack.pop()
            if x in seen:
                continue
            seen.add(x)
            for (y, lab) in self.succ[x]:
                if follow is not None and not follow(lab):
                    continue
                if avoid is not None and avoid(self.nodes[y]):
                    continue
                stack.append(y)
        return seen

    def must_pass(self, src, dst, through, follow=None):
        """True iff every path src ->* dst contains a node satisfying `through` (src excluded)."""
        r = self.reachable(src, avoid=through, follow=follow)
        return dst not in r

    def dominated_by(self, target, through, follow=None):
        """True iff every path entry ->* target passes a `through` node before target."""
        if through(self.nodes[target]):
            return True
        r = self.reachable(self.entry.id, avoid=lambda n: n.id != target and through(n), follow=follow)
        return target not in r

    def guarded_by(self, target, establishes, follow=None):
        """True iff every path entry ->* target traverses an edge leaving a test node t with the label
        establishes(t.ast) ('T' or 'F'): the fact holds on that outcome of the test, whatever the
        syntactic form (if/else, early return, conditional expression is not covered)."""
        seen = set()
        stack = [self.entry.id]
        while stack:
            x = stack.pop()
            if x in seen:
                continue
            seen.add(x)
            if x == target:
                return False
            nx = self.nodes[x]
            est = establishes(nx.ast) if nx.kind == "test" and nx.ast is not None else None
            for (y, lab) in self.succ[x]:
                if follow is not None and not follow(lab):
                    continue
                if est is not None and lab == est:
                    continue
                stack.append(y)
        return True

    def path(self, src, dst, avoid=None, follow=None):
        """Some path src ->* dst avoiding `avoid` nodes, as list of nodes (diagnostics)."""
        prev = {src: None}
        q = [src]
        while q:
            x = q.pop(0)
            if x == dst:
                out = []
                while x is not None:
                    out.append(self.nodes[x])
                    x = prev[x]
                return list(reversed(out))
            for (y, lab) in self.succ[x]:
                if follow is not None and not follow(lab):
                    continue
                if y in prev:
                    continue
                if avoid is not None and y != dst and avoid(self.nodes[y]):
                    continue
                prev[y] = x
                q.append(y)
        return None


def normal_only(lab):
    return not (lab or "").startswith("exc")


def calls_in(node):
    return [n for n in ast.walk(node) if isinstance(n, ast.Call)]


def call_name(call):
    f = call.func
    if isinstance(f, ast.Name):
        return f.id
    if isinstance(f, ast.Attribute):
        return f.attr
    return None


def dotted(node):
    """a.b.c as string, else None."""
    parts = []
    while isinstance(node, ast.Attribute):
        parts.append(node.attr)
        node = node.value
    if isinstance(node, ast.Name):
        parts.append(node.id)
        return ".".join(reversed(parts))
    if isinstance(node, ast.Call):
        d = dotted(node.func)
        if d:
            parts.append(d + "()")
            return ".".join(reversed(parts))
    return None


def membership_outcome(test, container, key=None, want_in=False):
    """For a test expression that decides `key in container`, the edge label ('T'/'F') on which the key is
    (want_in=True) / is not (want_in=False) in the container; None if the test does not decide it.  Handles
    `k in c`, `k not in c`, `not (...)`, and the conjunct/disjunct positions that still imply the fact."""
    from .loader import norm
    if isinstance(test, ast.UnaryOp) and isinstance(test.op, ast.Not):
        r = membership_outcome(test.operand, container, key, want_in)
        return {"T": "F", "F": "T", None: None}[r]
    if isinstance(test, ast.Compare) and len(test.ops) == 1 and isinstance(test.ops[0], (ast.In, ast.NotIn)) \
            and norm(test.comparators[0]) == container and (key is None or norm(test.left) == key):
        is_in = isinstance(test.ops[0], ast.In)
        return "T" if is_in == want_in else "F"
    if isinstance(test, ast.BoolOp):
        # `a and b` true => each conjunct true; `a or b` false => each disjunct false
        for v in test.values:
            r = membership_outcome(v, container, key, want_in)
            if isinstance(test.op, ast.And) and r == "T":
                return "T"
            if isinstance(test.op, ast.Or) and r == "F":
                return "F"
    return None
