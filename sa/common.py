"""Shared helpers for the rule modules."""
import ast

from .loader import AnalysisError, get_repo, norm, short
from .opsets import get_ops
from .handlers import get_tables
from .cfg import CFG, normal_only, call_name, dotted, calls_in


def fkey(repo, cls_or_mod, fname):
    """position-free function key"""
    return "%s.%s" % (cls_or_mod, fname)


def dispatch_rule(ctx, rs, qual, exempt=None):
    """Exhaustive dispatch: every operator resolves to a handler other than Walker.walk_error."""
    ht, ops = get_tables(), get_ops()
    exempt = exempt or {}
    tab = ht.table(qual)
    ci = get_repo().cls(qual)
    for o in ops:
        h = tab[o]
        nm = ops.name(o)
        if h.is_error:
            if nm in exempt:
                rs.ok({"class": qual, "op": nm, "handler": "walk_error (exempt: %s)" % exempt[nm]})
                continue
            ctx.finding(rs, "%s|%s" % (qual, nm),
                        "operator %s is not handled by %s (falls to Walker.walk_error): "
                        "a well-typed formula containing it makes this walker raise" % (nm, qual),
                        get_repo().loc(ci.module, ci.node))
        else:
            rs.ok({"class": qual.split(".")[-1], "op": nm, "handler": repr(h)})


def handler_funcs(qual):
    """Distinct (Handler, [ops]) pairs of class qual (error handler excluded)."""
    ht, ops = get_tables(), get_ops()
    tab = ht.table(qual)
    groups = {}
    for o in ops:
        h = tab[o]
        if h.is_error or h.func is None:
            continue
        groups.setdefault((h.cls, h.name), [h, []])[1].append(o)
    return [tuple(v) for v in groups.values()]


def func_module(repo, qual_cls):
    return repo.cls(qual_cls).module


def method_loc(repo, cls, func):
    return repo.loc(repo.cls(cls).module, func)


def parents(tree):
    par = {}
    for n in ast.walk(tree):
        for c in ast.iter_child_nodes(n):
            par[c] = n
    return par


def names_in(node):
    return set(n.id for n in ast.walk(node) if isinstance(n, ast.Name))


def attr_tail(node):
    """`a.b.c(...)` -> 'c' ; Name -> id."""
    if isinstance(node, ast.Call):
        node = node.func
    if isinstance(node, ast.Attribute):
        return node.attr
    if isinstance(node, ast.Name):
        return node.id
    return None


def is_self_attr(node, attr=None):
    return (isinstance(node, ast.Attribute) and isinstance(node.value, ast.Name)
            and node.value.id == "self" and (attr is None or node.attr == attr))


def kwarg(call, name, pos=None):
    for k in call.keywords:
        if k.arg == name:
            return k.value
    if pos is not None and len(call.args) > pos:
        return call.args[pos]
    return None


def stores_in(func):
    """(target expr, stmt) for every assignment-like store in func."""
    out = []
    for n in ast.walk(func):
        if isinstance(n, ast.Assign):
            for t in n.targets:
                out.append((t, n))
        elif isinstance(n, (ast.AugAssign, ast.AnnAssign)):
            out.append((n.target, n))
        elif isinstance(n, ast.Delete):
            for t in n.targets:
                out.append((t, n))
    return out


def all_functions(repo, module_filter=None):
    """Yields (module, class qual or None, FunctionDef) for every def in the package
    (nested defs included, attributed to their enclosing class/module)."""
    for m in repo.modules.values():
        if module_filter and not module_filter(m):
            continue
        for st in m.tree.body:
            if isinstance(st, (ast.FunctionDef, ast.AsyncFunctionDef)):
                yield m, None, st
            elif isinstance(st, ast.ClassDef):
                for s2 in st.body:
                    if isinstance(s2, (ast.FunctionDef, ast.AsyncFunctionDef)):
                        yield m, m.name + "." + st.name, s2


def enclosing_def(repo, m, target):
    """(class qual or None, function name or '<module>') enclosing ast node target in module m."""
    best = (None, "<module>")
    for st in m.tree.body:
        if isinstance(st, (ast.FunctionDef, ast.AsyncFunctionDef)):
            if any(n is target for n in ast.walk(st)):
                return (None, st.name)
        elif isinstance(st, ast.ClassDef):
            for s2 in st.body:
                if isinstance(s2, (ast.FunctionDef, ast.AsyncFunctionDef)):
                    if any(n is target for n in ast.walk(s2)):
                        return (m.name + "." + st.name, s2.name)
            if any(n is target for n in ast.walk(st)):
                best = (m.name + "." + st.name, "<class body>")
    return best


def class_instantiations(repo, target_qual):
    """All Call nodes in the package whose callee resolves to class target_qual.
    Returns list of (module, enclosing (cls, func), Call)."""
    out = []
    short_name = target_qual.split(".")[-1]
    for m in repo.modules.values():
        for n in ast.walk(m.tree):
            if isinstance(n, ast.Call):
                f = n.func
                if not ((isinstance(f, ast.Name) and f.id == short_name) or
                        (isinstance(f, ast.Attribute) and f.attr == short_name)):
                    continue
                r = repo.resolve_expr(m, f)
                if r and r[0] == "class" and r[1] == target_qual:
                    out.append((m, enclosing_def(repo, m, n), n))
    return out


def attr_stores(repo, attr, module_filter=None):
    """Stores to `<expr>.attr` (assignment, aug-assignment, subscript-store into it, del)
    anywhere in the package: list of (module, (cls, func), stmt, kind)."""
    out = []
    for m in repo.modules.values():
        if module_filter and not module_filter(m):
            continue
        for n in ast.walk(m.tree):
            tgts = []
            if isinstance(n, ast.Assign):
                tgts = n.targets
            elif isinstance(n, (ast.AugAssign, ast.AnnAssign)):
                tgts = [n.target]
            elif isinstance(n, ast.Delete):
                tgts = n.targets
            flat = []
            for t in tgts:
                if isinstance(t, (ast.Tuple, ast.List)):
                    flat.extend(t.elts)
                else:
                    flat.append(t)
            for t in flat:
                kind = None
                if isinstance(t, ast.Attribute) and t.attr == attr:
                    kind = "attr"
                elif isinstance(t, ast.Subscript) and isinstance(t.value, ast.Attribute) and t.value.attr == attr:
                    kind = "item"
                if kind:
                    out.append((m, enclosing_def(repo, m, n), n, kind))
            if isinstance(n, ast.Call) and isinstance(n.func, ast.Attribute) and \
                    n.func.attr in ("pop", "clear", "update", "setdefault", "popitem", "append", "extend", "insert", "remove") and \
                    isinstance(n.func.value, ast.Attribute) and n.func.value.attr == attr:
                out.append((m, enclosing_def(repo, m, n), n, "mutcall:" + n.func.attr))
    return out


def eval_bool(node, leaf):
    """Three-valued evaluation of a boolean test: leaf(ast) -> True/False/None (unknown)."""
    if isinstance(node, ast.BoolOp):
        vals = [eval_bool(v, leaf) for v in node.values]
        if isinstance(node.op, ast.And):
            if any(v is False for v in vals):
                return False
            return True if all(v is True for v in vals) else None
        if any(v is True for v in vals):
            return True
        return False if all(v is False for v in vals) else None
    if isinstance(node, ast.UnaryOp) and isinstance(node.op, ast.Not):
        v = eval_bool(node.operand, leaf)
        return None if v is None else (not v)
    if isinstance(node, ast.Constant):
        return bool(node.value)
    return leaf(node)


def parallel_map(fn, items, jobs=None, chunk=None):
    """fork-based parallel map (the analysis is pure given the source on disk)."""
    import multiprocessing as mp
    import os as _os
    items = list(items)
    jobs = jobs or min(16, _os.cpu_count() or 1)
    if len(items) < 8 or jobs <= 1 or _os.environ.get("SA_SERIAL"):
        return [fn(x) for x in items]
    ctx = mp.get_context("fork")
    with ctx.Pool(jobs) as pool:
        return pool.map(fn, items, chunksize=chunk or max(1, len(items) // (jobs * 4)))


def owner_region(repo, seeds):
    """Call-graph closure of an ownership region.  `seeds` is a set of (class qual | None, function name).  A
    function joins the region when it is private (leading underscore), lives in the class (or, for module-level
    functions, the module) of a region member, and every call site of its name in the whole package lies inside a
    region function: it is then reachable only through the owners and is part of their implementation.
    Call sites are matched by name (attribute call x.name(...) or plain call name(...)), which over-approximates
    the callers: a same-named call anywhere else keeps the helper out of the region."""
    region = set(seeds)
    # name -> enclosing defs of all call sites / references
    refs = {}
    for m in repo.modules.values():
        for n in ast.walk(m.tree):
            nm = None
            if isinstance(n, ast.Attribute):
                nm = n.attr
            elif isinstance(n, ast.Name) and isinstance(n.ctx, ast.Load):
                nm = n.id
            if nm and nm.startswith("_") and not nm.startswith("__"):
                refs.setdefault(nm, []).append((m, n))
    enc_cache = {}

    def enc(m, n):
        k = (m.name, id(n))
        if k not in enc_cache:
            enc_cache[k] = enclosing_def(repo, m, n)
        return enc_cache[k]
    changed = True
    while changed:
        changed = False
        classes = set(c for c, f in region if c)
        mods = set()
        for c, f in region:
            if c and c in repo.classes:
                mods.add(repo.classes[c].module.name)
        cands = set()
        for c in classes:
            ci = repo.classes[c]
            for nm in ci.order:
                if nm.startswith("_") and not nm.startswith("__") and ci.own_func(nm) is not None:
                    cands.add((c, nm))
        for mn in mods:
            m = repo.modules[mn]
            for st in m.tree.body:
                if isinstance(st, ast.FunctionDef) and st.name.startswith("_"):
                    cands.add((None, st.name))
        for cand in sorted(cands - region, key=str):
            sites = refs.get(cand[1], [])
            if not sites:
                continue
            if all(enc(m, n) in region or enc(m, n) == cand for m, n in sites):
                region.add(cand)
                changed = True
    return region
