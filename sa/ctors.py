"""Constructor summaries (syntactic tier): for each FormulaManager method, the create_node calls it
contains - operator, argument expressions, payload expression - and simple delegations
`return self.Other(p, q)`.  The abstract interpreter gives the precise, path-sensitive version; this
tier is enough for table rules that only need "constructor C builds operator O from its parameters
in this order"."""
import ast

from .loader import get_repo, norm
from .opsets import get_ops, NotConst

FM = "pysmt.formula.FormulaManager"


class CtorSummary(object):
    def __init__(self, name, params):
        self.name = name
        self.params = params
        self.nodes = []       # (op name, [arg exprs normalised], payload text or None, ast call)
        self.delegates = []   # (callee name, [arg texts])
        self.returns_param = []  # parameters that can be returned as they are

    def ops(self):
        return sorted(set(n[0] for n in self.nodes))


_CACHE = {}


def summary(name):
    if name in _CACHE:
        return _CACHE[name]
    repo, ops = get_repo(), get_ops()
    ci = repo.cls(FM)
    f = ci.own_func(name)
    if f is None:
        _CACHE[name] = None
        return None
    params = [a.arg for a in f.args.args[1:]]
    if f.args.vararg:
        params.append("*" + f.args.vararg.arg)
    s = CtorSummary(name, params)
    for n in ast.walk(f):
        if isinstance(n, ast.Call) and isinstance(n.func, ast.Attribute) and n.func.attr == "create_node" \
                and norm(n.func.value) == "self":
            nt = args = payload = None
            pos = list(n.args)
            kw = dict((k.arg, k.value) for k in n.keywords)
            nt = kw.get("node_type", pos[0] if pos else None)
            args = kw.get("args", pos[1] if len(pos) > 1 else None)
            payload = kw.get("payload", pos[2] if len(pos) > 2 else None)
            try:
                o = ops.ce.expr(ci.module, nt)
                opn = ops.name(o)
            except (NotConst, Exception):
                opn = "?" + norm(nt)
            if isinstance(args, ast.Tuple):
                a = [norm(e) for e in args.elts]
            else:
                a = ["*" + norm(args)] if args is not None else []
            s.nodes.append((opn, a, norm(payload) if payload is not None else None, n))
        if isinstance(n, ast.Return) and isinstance(n.value, ast.Call) and isinstance(n.value.func, ast.Attribute) \
                and norm(n.value.func.value) == "self" and n.value.func.attr != "create_node":
            s.delegates.append((n.value.func.attr, [norm(a) for a in n.value.args]))
        if isinstance(n, ast.Return) and isinstance(n.value, ast.Name) and n.value.id in params:
            s.returns_param.append(n.value.id)
    _CACHE[name] = s
    return s


def builds(name, depth=0):
    """Set of (op name, arg order as tuple of parameter positions or None) constructor `name` may
    build at its top level (following delegations)."""
    s = summary(name)
    out = set()
    if s is None or depth > 6:
        return out
    for opn, a, payload, _ in s.nodes:
        idx = []
        for e in a:
            if e in s.params:
                idx.append(s.params.index(e))
            else:
                idx = None
                break
        out.add((opn, tuple(idx) if idx is not None else None))
    for callee, args in s.delegates:
        for opn, order in builds(callee, depth + 1):
            if order is not None and all(a in s.params for a in args):
                mapped = tuple(s.params.index(args[i]) if i < len(args) else None for i in order)
                out.add((opn, mapped))
            else:
                out.add((opn, None))
    return out


# ------------------------------------------------------------------------------------------------------
# Interpretation tier: what a FormulaManager constructor builds, found by interpreting it on opaque
# operands of each sort family.  Independent of how the constructor is written (helpers, tables).
_ICACHE = {}
_INT_PARAM_NAMES = {"start", "end", "stop", "steps", "increase", "count", "width", "k"}
_FAMILIES = [("BOOL",), ("INT",), ("REAL",), ("BV", 4), ("STRING",), ("ARRAY", ("INT",), ("INT",))]


def builds_interp(name):
    """Set of (op name, operand order or None) that FormulaManager.<name> builds at top level on operands
    of some sort family, or None if the constructor could not be interpreted at all."""
    if name in _ICACHE:
        return _ICACHE[name]
    from .absint import Interp, Explorer, Unsupported, AbsRaise
    from .world import World
    repo = get_repo()
    ci = repo.cls(FM)
    f = ci.own_func(name)
    if f is None:
        _ICACHE[name] = None
        return None
    pos = f.args.args[1:]
    n_def = len(f.args.defaults)
    required = pos[:len(pos) - n_def] if n_def else pos
    kinds = []
    for a in required:
        ann = a.annotation
        txt = ast.unparse(ann) if ann is not None else ""
        kinds.append("int" if (txt == "int" or a.arg in _INT_PARAM_NAMES) else "node")
    if f.args.vararg is not None and not required:
        kinds = ["node", "node"]
    out = set()
    any_ok = False
    for fam in _FAMILIES:
        def one(ex, fam=fam):
            it = Interp(ex)
            w = World().attach(it)
            ops_, ints = [], [1, 2, 1]
            for i, k in enumerate(kinds):
                if k == "int":
                    ops_.append(ints[i] if i < len(ints) else 1)
                elif fam[0] == "ARRAY" and i > 0:
                    ops_.append(w.symbol("x%d" % i, ("INT",)))
                else:
                    ops_.append(w.symbol("x%d" % i, fam))
            node = w.app(name, *ops_)
            if not w.is_node(node):
                return None
            order = []
            for a in w.nargs(node):
                hit = [i for i, o in enumerate(ops_) if o is a]
                order.append(hit[0] if hit else None)
            return (w.opname(node), tuple(order) if None not in order else None)
        try:
            paths = Explorer(max_paths=16).run(one)
        except Unsupported:
            continue
        for p in paths:
            if p.kind == "return":
                any_ok = True
                if p.value is not None:
                    out.add(p.value)
            elif p.kind == "raise":
                any_ok = True
    res = out if any_ok else None
    _ICACHE[name] = res
    return res


def builds_any(name):
    """Interpretation tier first, syntactic tier as a fall-back."""
    r = builds_interp(name)
    if r:
        return r
    return builds(name)
