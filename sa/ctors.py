"""Constructor summaries (syntactic tier): for each FormulaManager method, the create_node calls it
contains - operator, argument expressions, payload expression - and simple delegations
`return self.Other(p, q)`.  The abstract interpreter gives the precise, path-sensitive version; this
tier is enough for table rules that only need "constructor C builds operator O from its parameters
in this order"."""
import ast

from .loader import get_repo, norm
from .opsets import get_ops, NotConst

FM = "pysmt.formula.FormulaManager"


class CtorSummary(object):
    def __init__(self, name, params):
        self.name = name
        self.params = params
        self.nodes = []       # (op name, [arg exprs normalised], payload text or None, ast call)
        self.delegates = []   # (callee name, [arg texts])
        self.returns_param = []  # parameters that can be returned as they are

    def ops(self):
        return sorted(set(n[0] for n in self.nodes))


_CACHE = {}


def summary(name):
    if name in _CACHE:
        return _CACHE[name]
    repo, ops = get_repo(), get_ops()
    ci = repo.cls(FM)
    f = ci.own_func(name)
    if f is None:
        _CACHE[name] = None
        return None
    params = [a.arg for a in f.args.args[1:]]
    if f.args.vararg:
        params.append("*" + f.args.vararg.arg)
    s = CtorSummary(name, params)
    for n in ast.walk(f):
        if isinstance(n, ast.Call) and isinstance(n.func, ast.Attribute) and n.func.attr == "create_node" \
                and norm(n.func.value) == "self":
            nt = args = payload = None
            pos = list(n.args)
            kw = dict((k.arg, k.value) for k in n.keywords)
            nt = kw.get("node_type", pos[0] if pos else None)
            args = kw.get("args", pos[1] if len(pos) > 1 else None)
            payload = kw.get("payload", pos[2] if len(pos) > 2 else None)
            try:
                o = ops.ce.expr(ci.module, nt)
                opn = ops.name(o)
            except (NotConst, Exception):
                opn = "?" + norm(nt)
            if isinstance(args, ast.Tuple):
                a = [norm(e) for e in args.elts]
            else:
                a = ["*" + norm(args)] if args is not None else []
            s.nodes.append((opn, a, norm(payload) if payload is not None else None, n))
        if isinstance(n, ast.Return) and isinstance(n.value, ast.Call) and isinstance(n.value.func, ast.Attribute) \
                and norm(n.value.func.value) == "self" and n.value.func.attr != "create_node":
            s.delegates.append((n.value.func.attr, [norm(a) for a in n.value.args]))
        if isinstance(n, ast.Return) and isinstance(n.value, ast.Name) and n.value.id in params:
            s.returns_param.append(n.value.id)
    _CACHE[name] = s
    return s


def builds(name, depth=0):
    """Set of (op name, arg order as tuple of parameter positions or None) constructor `name` may
    build at its top level (following delegations)."""
    s = summary(name)
    out = set()
    if s is None or depth > 6:
        return out
    for opn, a, payload, _ in s.nodes:
        idx = []
        for e in a:
            if e in s.params:
                idx.append(s.params.index(e))
            else:
                idx = None
                break
        out.add((opn, tuple(idx) if idx is not None else None))
    for callee, args in s.delegates:
        for opn, order in builds(callee, depth + 1):
            if order is not None and all(a in s.params for a in args):
                mapped = tuple(s.params.index(args[i]) if i < len(args) else None for i in order)
                out.add((opn, mapped))
            else:
                out.add((opn, None))
    return out
