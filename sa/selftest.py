"""Checks the checker: every seeded property-breaking change under /verif/seeded must be reported by some
check, every behaviour-preserving variant under /verif/refactors must leave every check at exit 0.
Both are applied to scratch worktrees of /repo (never to /repo itself); see tools/mutants.py, tools/refactors.py."""
import json
import os
import subprocess
import sys

VERIF = os.path.dirname(os.path.dirname(os.path.abspath(__file__)))


def main(jobs=16, only=None):
    rc = 0
    ids = [only] if only else []
    r = subprocess.run([sys.executable, os.path.join(VERIF, "tools", "mutants.py"), "detect"] + ids, cwd=VERIF)
    missed = []
    for d in sorted(os.listdir(os.path.join(VERIF, "seeded"))):
        if only and d != only:
            continue
        m = json.load(open(os.path.join(VERIF, "seeded", d, "meta.json")))
        if not m.get("caught"):
            missed.append(d)
    print("seeded changes not reported: %s" % (missed or "none"))
    if missed:
        rc = 1
    if not only:
        r = subprocess.run([sys.executable, os.path.join(VERIF, "tools", "refactors.py"), "run"], cwd=VERIF)
        if r.returncode != 0:
            print("some behaviour-preserving variant raises an alarm")
            rc = 1
    return rc
