"""Source loader: parses every module of /repo/pysmt (except the test-suite), resolves
imports, builds the class table with C3 MRO and answers "which def does C.m resolve to".

Nothing from pysmt is imported or executed: everything is ast.
"""
import ast
import hashlib
import os
import warnings

REPO = os.environ.get("SA_REPO", "/repo")
PKG = "pysmt"


class AnalysisError(Exception):
    """The analysis cannot do its job (vanished anchor, unparsable source ...).
    Reported as ANALYSIS-ERROR, exit 2 -- never as a violation."""


class Module(object):
    def __init__(self, name, path, src, tree, is_pkg):
        self.name = name
        self.path = path
        self.src = src
        self.tree = tree
        self.is_pkg = is_pkg
        self.ns = {}          # name -> binding tuple
        self.relpath = os.path.relpath(path, REPO)

    def __repr__(self):
        return "<Module %s>" % self.name


class ClassInfo(object):
    def __init__(self, qual, module, node):
        self.qual = qual
        self.name = node.name
        self.module = module
        self.node = node
        self.base_exprs = node.bases
        self.bases = []       # resolved quals (only repo classes)
        self.attrs = {}       # name -> ('func', FunctionDef) | ('alias', name) | ('expr', node)
        self.order = []       # definition order of attrs
        for st in node.body:
            if isinstance(st, (ast.FunctionDef, ast.AsyncFunctionDef)):
                self.attrs[st.name] = ("func", st)
                self.order.append(st.name)
            elif isinstance(st, ast.Assign):
                for t in st.targets:
                    if isinstance(t, ast.Name):
                        if isinstance(st.value, ast.Name) and st.value.id in self.attrs:
                            self.attrs[t.id] = ("alias", st.value.id)
                        else:
                            self.attrs[t.id] = ("expr", st.value)
                        self.order.append(t.id)
                    elif isinstance(t, ast.Tuple):
                        for i, e in enumerate(t.elts):
                            if isinstance(e, ast.Name):
                                self.attrs[e.id] = ("unpack", (st.value, i))
                                self.order.append(e.id)
            elif isinstance(st, ast.AnnAssign) and isinstance(st.target, ast.Name):
                if st.value is not None:
                    self.attrs[st.target.id] = ("expr", st.value)
                    self.order.append(st.target.id)

    def own_func(self, name):
        """FunctionDef defined (or aliased) in this very class, else None."""
        seen = set()
        while name in self.attrs and name not in seen:
            seen.add(name)
            kind, v = self.attrs[name]
            if kind == "func":
                return v
            if kind == "alias":
                name = v
                continue
            return None
        return None

    def __repr__(self):
        return "<Class %s>" % self.qual


class Repo(object):
    def __init__(self, root=None):
        self.root = root or REPO
        self.modules = {}
        self.classes = {}
        self.functions = {}   # qual -> (module, FunctionDef) module-level functions
        self._mro = {}
        self._load()
        self._bind()
        self._classes()

    # ------------------------------------------------------------------ loading
    def _load(self):
        base = os.path.join(self.root, PKG)
        if not os.path.isdir(base):
            raise AnalysisError("package directory %s not found" % base)
        for dirpath, dirnames, filenames in os.walk(base):
            rel = os.path.relpath(dirpath, self.root)
            parts = rel.split(os.sep)
            if "test" in parts[1:2] or "__pycache__" in parts:
                dirnames[:] = []
                continue
            dirnames[:] = sorted(d for d in dirnames if d != "__pycache__")
            for fn in sorted(filenames):
                if not fn.endswith(".py"):
                    continue
                path = os.path.join(dirpath, fn)
                with open(path, "rb") as f:
                    raw = f.read()
                src = raw.decode("utf-8")
                try:
                    with warnings.catch_warnings():
                        warnings.simplefilter('ignore')
                        tree = ast.parse(src, filename=path)
                except SyntaxError as ex:
                    raise AnalysisError("cannot parse %s: %s" % (path, ex))
                if fn == "__init__.py":
                    name = ".".join(parts)
                    is_pkg = True
                else:
                    name = ".".join(parts + [fn[:-3]])
                    is_pkg = False
                self.modules[name] = Module(name, path, src, tree, is_pkg)

    def add_virtual(self, name, src):
        """Register analysis-side source (probe classes deriving from repository classes) as a module.
        It is parsed and resolved like any module of the package, never executed."""
        if name in self.modules:
            return self.modules[name]
        tree = ast.parse(src, filename="<virtual:%s>" % name)
        m = Module(name, "<virtual:%s>" % name, src, tree, False)
        self.modules[name] = m
        self._bind_body(m, tree.body)
        new = []
        for st in tree.body:
            if isinstance(st, ast.ClassDef):
                ci = ClassInfo(m.name + "." + st.name, m, st)
                self.classes[ci.qual] = ci
                new.append(ci)
        for ci in new:
            for b in ci.base_exprs:
                r = self.resolve_expr(m, b)
                if r and r[0] == "class" and r[1] in self.classes:
                    ci.bases.append(r[1])
        return m

    def digest(self, names=None):
        h = hashlib.sha256()
        for n in sorted(names or self.modules):
            h.update(n.encode())
            h.update(self.modules[n].src.encode())
        return h.hexdigest()[:16]

    def module(self, name):
        m = self.modules.get(name)
        if m is None:
            raise AnalysisError("module %s not found in %s" % (name, self.root))
        return m

    # ------------------------------------------------------------------ namespaces
    def _bind(self):
        for m in self.modules.values():
            self._bind_body(m, m.tree.body)

    def _bind_body(self, m, body):
        for st in body:
            if isinstance(st, ast.Import):
                for a in st.names:
                    if a.asname:
                        m.ns[a.asname] = ("module", a.name)
                    else:
                        top = a.name.split(".")[0]
                        m.ns[top] = ("module", top)
            elif isinstance(st, ast.ImportFrom):
                mod = st.module or ""
                if st.level:
                    pk = m.name.split(".")
                    if not m.is_pkg:
                        pk = pk[:-1]
                    pk = pk[:len(pk) - (st.level - 1)]
                    mod = ".".join(pk + ([mod] if mod else []))
                for a in st.names:
                    if a.name == "*":
                        cur = m.ns.get("*", ("star", []))
                        m.ns["*"] = ("star", cur[1] + [mod])
                        continue
                    m.ns[a.asname or a.name] = ("from", mod, a.name)
            elif isinstance(st, (ast.FunctionDef, ast.AsyncFunctionDef)):
                m.ns[st.name] = ("func", st)
                self.functions[m.name + "." + st.name] = (m, st)
            elif isinstance(st, ast.ClassDef):
                m.ns[st.name] = ("class", m.name + "." + st.name)
            elif isinstance(st, ast.Assign):
                for t in st.targets:
                    for nm in _target_names(t):
                        m.ns[nm] = ("assign", st, t)
            elif isinstance(st, ast.AnnAssign):
                if isinstance(st.target, ast.Name) and st.value is not None:
                    m.ns[st.target.id] = ("assign", st, st.target)
            elif isinstance(st, (ast.If, ast.Try)):
                # both arms contribute (sys.version checks, optional imports)
                for sub in ([st.body, st.orelse] if isinstance(st, ast.If)
                            else [st.body, st.orelse, st.finalbody] + [h.body for h in st.handlers]):
                    self._bind_body(m, sub)

    def resolve(self, m, name, _depth=0):
        """Resolve a name used in module m to ('class', qual) | ('module', name) |
        ('func', module, FunctionDef) | ('assign', module, stmt, target) | None."""
        if _depth > 20:
            return None
        b = m.ns.get(name)
        if b is None:
            # from X import *
            for mod in m.ns.get("*", ("star", []))[1] if "*" in m.ns else []:
                tm = self.modules.get(mod)
                if tm is not None and not name.startswith("_"):
                    r = self.resolve(tm, name, _depth + 1)
                    if r is not None:
                        return r
            return None
        if b[0] == "module":
            return ("module", b[1])
        if b[0] == "class":
            return ("class", b[1])
        if b[0] == "func":
            return ("func", m, b[1])
        if b[0] == "assign":
            return ("assign", m, b[1], b[2])
        if b[0] == "from":
            mod, nm = b[1], b[2]
            sub = mod + "." + nm
            if sub in self.modules:
                return ("module", sub)
            tm = self.modules.get(mod)
            if tm is None:
                return ("external", sub)
            return self.resolve(tm, nm, _depth + 1)
        return None

    def resolve_expr(self, m, node):
        """Resolve Name / dotted Attribute chains to a binding (see resolve)."""
        if isinstance(node, ast.Name):
            return self.resolve(m, node.id)
        if isinstance(node, ast.Attribute):
            base = self.resolve_expr(m, node.value)
            if base is None:
                return None
            if base[0] == "module":
                sub = base[1] + "." + node.attr
                if sub in self.modules:
                    return ("module", sub)
                tm = self.modules.get(base[1])
                if tm is None:
                    return ("external", sub)
                return self.resolve(tm, node.attr)
            if base[0] == "class":
                return ("classattr", base[1], node.attr)
            return None
        if isinstance(node, ast.Constant) and isinstance(node.value, str):
            return None
        return None

    # ------------------------------------------------------------------ classes
    def _classes(self):
        for m in self.modules.values():
            for st in ast.walk(m.tree):
                if isinstance(st, ast.ClassDef) and st in m.tree.body:
                    ci = ClassInfo(m.name + "." + st.name, m, st)
                    self.classes[ci.qual] = ci
        for ci in self.classes.values():
            for b in ci.base_exprs:
                r = self.resolve_expr(ci.module, b)
                if r and r[0] == "class" and r[1] in self.classes:
                    ci.bases.append(r[1])

    def cls(self, qual):
        c = self.classes.get(qual)
        if c is None:
            raise AnalysisError("class %s not found" % qual)
        return c

    def mro(self, qual):
        if qual in self._mro:
            return self._mro[qual]
        ci = self.cls(qual)
        seqs = [list(self.mro(b)) for b in ci.bases] + [list(ci.bases)]
        res = [qual]
        seqs = [s for s in seqs if s]
        while seqs:
            for s in seqs:
                cand = s[0]
                if not any(cand in o[1:] for o in seqs):
                    break
            else:
                raise AnalysisError("inconsistent MRO for %s" % qual)
            res.append(cand)
            seqs = [[x for x in s if x != cand] for s in seqs]
            seqs = [s for s in seqs if s]
        self._mro[qual] = res
        return res

    def subclasses(self, qual, strict=False):
        out = []
        for q in sorted(self.classes):
            if qual in self.mro(q) and not (strict and q == qual):
                out.append(q)
        return out

    def find_method(self, qual, name):
        """(defining class qual, FunctionDef) through the MRO, or (None, None)."""
        for q in self.mro(qual):
            f = self.classes[q].own_func(name)
            if f is not None:
                return q, f
            if name in self.classes[q].attrs:
                return q, None
        return None, None

    def method(self, qual, name):
        q, f = self.find_method(qual, name)
        if f is None:
            raise AnalysisError("method %s.%s not found" % (qual, name))
        return q, f

    def function(self, qual):
        r = self.functions.get(qual)
        if r is None:
            raise AnalysisError("function %s not found" % qual)
        return r

    def loc(self, module, node):
        m = module if isinstance(module, Module) else self.modules[module]
        return "%s:%d" % (m.relpath, getattr(node, "lineno", 0))


def _target_names(t):
    if isinstance(t, ast.Name):
        return [t.id]
    if isinstance(t, (ast.Tuple, ast.List)):
        out = []
        for e in t.elts:
            out.extend(_target_names(e))
        return out
    return []


def norm(node):
    """Normalised text of a construct: position-free key material."""
    if isinstance(node, str):
        return " ".join(node.split())
    try:
        return ast.unparse(node)
    except Exception:
        return ast.dump(node)


def short(node, n=90):
    s = " ".join(norm(node).split())
    return s if len(s) <= n else s[:n - 3] + "..."


_REPO = None


def get_repo():
    global _REPO
    if _REPO is None:
        _REPO = Repo()
    return _REPO
