"""Procedure-level rule extraction: a whole rewriting / analysis procedure (a walker's entry point or
a module-level function) is interpreted from source on a *shape*: an operator skeleton over opaque
leaves (Boolean symbols, theory atoms, symbolic constants).  The result term is then compared with
the input by the reference semantics over all valuations of the leaves (and all values of bound
Boolean / 1-2 bit variables), and with the advertised shape predicate.  One shape = one rule
instance: "for every formula of this shape the procedure returns an equivalent term of the
advertised form"."""
import itertools
from fractions import Fraction

from .absint import Interp, Explorer, AObj, Func, ClassRef, Unsupported, AbsRaise, SymInt, Prim
from .world import World
from .loader import get_repo
from . import refsem
from . import simpcheck as sc

BOOL, INT, REAL = ("BOOL",), ("INT",), ("REAL",)


class Shape(object):
    """A formula skeleton: nested tuples ('And', s1, s2) / ('sym', name, sort) / ('lit', v, sort) /
    ('forall', [(name, sort)...], body) / ('atom_lt', x, y) ...  built through the real constructors."""

    def __init__(self, t):
        self.t = t

    def __repr__(self):
        return shape_str(self.t)


def shape_str(t):
    if not isinstance(t, tuple):
        return repr(t)
    k = t[0]
    if k == "type":
        return str(t[1])
    if k == "sym":
        return t[1]
    if k == "lit":
        return repr(t[1])
    if k in ("forall", "exists"):
        return "%s %s. %s" % (k, ",".join(n for n, _ in t[1]), shape_str(t[2]))
    if k == "const":
        return "const:" + t[1]
    if k == "fun":
        return "%s(%s)" % (t[1], ", ".join(shape_str(x) for x in t[4:]))
    return "%s(%s)" % (k, ", ".join(shape_str(x) for x in t[1:]))


def build_shape(w, t):
    if not isinstance(t, tuple):
        return t                      # raw python parameter (index, step, width)
    k = t[0]
    if k == "type":
        return w.tyobj(sc._sort(w, t[1]))
    if k == "sym":
        return w.symbol(t[1], sc._sort(w, t[2]))
    if k == "lit":
        return sc.build(w, ("lit", t[1], t[2]), [])
    if k == "const":
        return sc.build(w, ("const", t[1], t[2]), [])
    if k in ("forall", "exists"):
        vs = [w.symbol(n, sc._sort(w, s)) for n, s in t[1]]
        return w.app("ForAll" if k == "forall" else "Exists", vs, build_shape(w, t[2]))
    if k == "dict":
        # ('dict', (key shape, value shape), ...)
        return dict((build_shape(w, kv[0]), build_shape(w, kv[1])) for kv in t[1:])
    if k == "fun":
        # ('fun', name, ret_sort, (param sorts), args...)
        f = w.symbol(t[1], ("FUN", t[2], tuple(t[3])))
        return w.app("Function", f, [build_shape(w, x) for x in t[4:]])
    return w.app(k, *[build_shape(w, x) for x in t[1:]])


class TypedWorld(World):
    """Every constructed node goes through the interpreted type checker, as create_node does: an ill-typed
    construction raises (PysmtTypeError) instead of yielding a node."""

    def __init__(self, *a, **k):
        World.__init__(self, *a, **k)
        self.typecheck = True


def setup_env(w):
    """Environment services interpreted from the real classes."""
    it = w.it
    w.env.attrs["_simplifier"] = w.new_walker("pysmt.simplifier.Simplifier", w.env)
    w.env.attrs["_substituter"] = w.new_walker("pysmt.substituter.MGSubstituter", w.env)
    return w


def setup_env_full(w):
    """All environment services interpreted from the real classes (oracles, serializer), created on first use."""
    w.lazy_services = True
    return w


class ProcResult(object):
    def __init__(self, shape, kind, detail, result=None, facts=()):
        self.shape = shape
        self.kind = kind        # valid | invalid | shape | raises | unsupported | nosem | vacuous
        self.detail = detail
        self.result = result
        self.facts = facts


def run_proc(shape, call, check_equiv=True, shape_pred=None, max_paths=64, services=True, post=None, world_cls=None, interp_kwargs=None):
    """call(w, it, formula) -> result node (or any value handed to `post`).
    post(w, formula, value, facts) -> ProcResult or None to continue with the default checks."""
    def one(ex):
        it = Interp(ex, **(interp_kwargs or {}))
        w = (world_cls or World)().attach(it)
        if services == "full":
            setup_env_full(w)
        elif services:
            setup_env(w)
        f = build_shape(w, shape.t)
        r = call(w, it, f)
        return (w, f, r)
    try:
        paths = Explorer(max_paths=max_paths).run(one)
    except Unsupported as e:
        return [ProcResult(shape, "unsupported", str(e))]
    out = []
    for p in paths:
        facts = p.facts()
        if p.kind == "unsupported":
            out.append(ProcResult(shape, "unsupported", str(p.value), facts=facts))
            continue
        if p.kind == "raise":
            out.append(ProcResult(shape, "raises", "%s%s%s" % (p.value.cls_name, _args(p.value), _trace(p.value)), facts=facts))
            continue
        w, f, r = p.value
        why = _ill_formed(w, r)
        if why:
            out.append(ProcResult(shape, "invalid", "the result is not a well-formed formula: " + why, facts=facts))
            continue
        if post is not None:
            try:
                pr = post(w, f, r, facts)
            except Unsupported as e:
                pr = ProcResult(shape, "unsupported", "judging the result: %s" % e, facts=facts)
            if pr is not None:
                out.append(pr)
                continue
        if not w.is_node(r):
            out.append(ProcResult(shape, "unsupported", "procedure returned %r" % (r,), facts=facts))
            continue
        rs = sc.node_str(w, r)
        if shape_pred is not None:
            why = shape_pred(w, r)
            if why:
                out.append(ProcResult(shape, "shape", why, rs, facts))
                continue
        if check_equiv:
            v = sc.validate(w, f, r, facts, repr(shape))
            out.append(ProcResult(shape, v.kind, v.detail, rs, facts))
        else:
            out.append(ProcResult(shape, "valid", "shape only", rs, facts))
    return out


def _ill_formed(w, r, _budget=4000):
    """A quantifier whose 'variables' are not symbols (a binder rewritten like an ordinary occurrence) is no formula; looks
    into tuples / lists / dicts of nodes as returned by the procedures."""
    todo, seen = [r], set()
    while todo and _budget > 0:
        _budget -= 1
        n = todo.pop()
        if isinstance(n, (tuple, list, set, frozenset)):
            todo.extend(n)
            continue
        if isinstance(n, dict):
            todo.extend(n.keys())
            todo.extend(n.values())
            continue
        try:
            if not w.is_node(n) or id(n) in seen:
                continue
            seen.add(id(n))
            if w.opname(n) in ("FORALL", "EXISTS"):
                for v in w.npayload(n):
                    if not w.is_node(v) or w.opname(v) != "SYMBOL":
                        return "a quantifier binds %s, which is not a variable" % (sc.node_str(w, v) if w.is_node(v) else repr(v),)
            todo.extend(w.nargs(n))
        except Unsupported:
            return None
        except Exception:
            return None
    return None


def _trace(ex):
    import os
    tr = getattr(ex, "trace", None)
    return (" @ " + " < ".join(tr[:6])) if tr and os.environ.get("SA_TRACE") else ""


def _args(ex):
    try:
        return "(%s)" % ", ".join(str(a)[:80] for a in ex.exc_args)
    except Exception:
        return ""


# ------------------------------------------------------------------------------------ shape menus
def S(n, sort=BOOL):
    return ("sym", n, sort)


def bool_leaves():
    a, b, c = S("a"), S("b"), S("c")
    lt = ("LT", S("x", INT), S("y", INT))
    return [a, b, c, lt]


def boolean_shapes(depth2=True, with_const=True):
    """Operator skeletons over opaque Boolean leaves: every connective applied to leaves, and every
    connective applied to one connective-of-leaves and leaves."""
    a, b, c, lt = bool_leaves()
    T, F = ("lit", True, BOOL), ("lit", False, BOOL)
    d1 = [("Not", a), ("And", a, b), ("And", a, b, c), ("Or", a, b), ("Or", a, lt, c), ("Implies", a, b),
          ("Iff", a, b), ("Ite", a, b, c), ("Not", lt), ("Iff", a, lt), ("Ite", lt, a, b)]
    out = list(d1)
    if with_const:
        out += [("And", a, T), ("Or", a, F), ("Implies", T, a), ("Iff", a, F), ("Ite", T, a, b), ("Not", T),
                ("And", a, F), ("Or", a, T), ("Implies", a, F), ("And", ("Or", a, b), F), ("Or", ("And", a, b), ("Not", T))]
    if depth2:
        for inner in d1:
            out += [("Not", inner), ("And", inner, c), ("Or", c, inner), ("Implies", inner, c), ("Implies", c, inner),
                    ("Iff", inner, c), ("Iff", c, inner), ("Ite", inner, a, c), ("Ite", c, inner, a), ("Ite", c, a, inner),
                    ("Not", ("Not", inner))]
    return [Shape(t) for t in out]


def quantified_shapes():
    a, b, c, lt = bool_leaves()
    qa = [("a", BOOL)]
    qb = [("b", BOOL)]
    out = [("forall", qa, ("Or", a, b)), ("exists", qa, ("And", a, b)), ("Not", ("forall", qa, ("Implies", a, b))),
           ("Not", ("exists", qa, ("Iff", a, b))),
           ("And", ("exists", qa, a), ("forall", qa, ("Or", a, b))),
           ("Or", ("forall", qa, ("Or", a, c)), ("exists", qa, ("And", a, b))),
           ("Implies", ("exists", qa, ("And", a, b)), ("forall", qb, ("Or", b, c))),
           ("Iff", ("forall", qa, ("Or", a, b)), c), ("Iff", c, ("exists", qa, ("And", a, b))),
           ("Ite", ("exists", qa, ("And", a, b)), b, c), ("Ite", c, ("forall", qa, ("Or", a, b)), b),
           ("forall", qa, ("exists", qb, ("Iff", a, b))), ("exists", qa, ("forall", qa, ("Or", a, b))),
           ("And", a, ("exists", qa, ("Implies", a, b))), ("Or", b, ("forall", qb, ("Implies", a, b))),
           ("forall", [("a", BOOL), ("b", BOOL)], ("Or", a, b, c)),
           # blocks of several variables whose witnesses differ per variable
           ("exists", [("a", BOOL), ("b", BOOL)], ("Not", ("Iff", a, b))), ("exists", [("a", BOOL), ("b", BOOL)], ("And", a, ("Not", b))),
           ("forall", [("a", BOOL), ("b", BOOL)], ("Iff", a, b)),
           ("exists", [("a", BOOL), ("b", BOOL)], ("And", ("Not", ("Iff", a, b)), ("Implies", a, c))),
           ("forall", [("a", BOOL), ("b", BOOL), ("c", BOOL)], ("Or", ("Not", a), b, ("Not", c))),
           ("And", c, ("exists", [("a", BOOL), ("b", BOOL)], ("And", ("Or", a, b), ("Not", ("And", a, b)), ("Iff", a, c)))),
           ("Not", ("And", ("exists", qa, a), ("forall", qa, ("Or", a, b)))),
           ("And", ("forall", qa, ("Or", a, b)), ("forall", qa, ("Or", a, c)), ("exists", qa, ("And", a, c))),
           ("forall", qa, ("And", b, c)), ("exists", qa, ("exists", qb, ("And", a, b, c))),
           # the body of a quantifier is also used outside it (shared node)
           ("And", ("Not", ("Or", a, b)), ("exists", qa, ("Or", a, b))), ("Iff", ("forall", qa, ("Or", a, b)), ("Or", a, b)),
           ("Implies", ("Or", a, b), ("forall", qa, ("Or", a, b))), ("Or", ("exists", qa, ("And", a, c)), ("Not", ("And", a, c)), ("forall", qb, ("And", a, c)))]
    # array values whose stored entries are terms: a free / bound variable that occurs only inside an entry
    one = ("lit", 1, INT)

    def av(entry, default=("lit", False, BOOL)):
        return ("Select", ("Array", ("type", INT), default, ("dict", (one, entry))), one)
    out += [("And", av(a), ("exists", qa, ("Or", a, b))), ("Or", ("forall", qa, ("Implies", a, b)), av(("And", a, c))),
            ("exists", qb, ("And", ("Iff", c, b), av(("Ite", b, a, c)))), ("forall", qb, ("Or", av(b), ("And", a, ("Not", b)))),
            ("forall", qa, ("exists", qb, ("Iff", av(("Or", a, b)), c))), ("And", av(a, default=b), ("exists", qb, ("Iff", a, b)))]
    return [Shape(t) for t in out]


# ------------------------------------------------------------------------------------ shape predicates
ATOM_OPS = None


def _is_atom(w, n):
    op = w.opname(n)
    return op in ("SYMBOL", "FUNCTION", "BOOL_CONSTANT", "EQUALS", "LE", "LT", "BV_ULT", "BV_ULE", "BV_SLT",
                  "BV_SLE", "STR_CONTAINS", "STR_PREFIXOF", "STR_SUFFIXOF", "ARRAY_SELECT")


def pred_nnf(w, n):
    stack = [n]
    while stack:
        x = stack.pop()
        op = w.opname(x)
        if op == "NOT":
            if not _is_atom(w, w.nargs(x)[0]):
                return "negation applied to the non-atom %s" % sc.node_str(w, w.nargs(x)[0])
            continue
        if op in ("IMPLIES", "IFF") or (op == "ITE" and w.nsort(x) == refsem.BOOL):
            return "connective %s left in a negation normal form" % op
        if _is_atom(w, x):
            continue
        stack.extend(w.nargs(x))
    return None


def pred_aig(w, n):
    stack = [n]
    while stack:
        x = stack.pop()
        op = w.opname(x)
        if op in ("OR", "IMPLIES", "IFF") or (op == "ITE" and w.nsort(x) == refsem.BOOL):
            return "connective %s left in an and-inverter graph" % op
        if _is_atom(w, x):
            continue
        stack.extend(w.nargs(x))
    return None


def pred_qf(w, n):
    stack = [n]
    while stack:
        x = stack.pop()
        if w.opname(x) in ("FORALL", "EXISTS"):
            return "a quantifier is left: %s" % sc.node_str(w, x)
        stack.extend(w.nargs(x))
    return None


def pred_prenex(w, n):
    x = n
    while w.opname(x) in ("FORALL", "EXISTS"):
        x = w.nargs(x)[0]
    why = pred_qf(w, x)
    if why:
        return "the matrix is not quantifier free: " + why
    return None


def term_shapes():
    """Skeletons exercising every operator family once or twice, with quantifiers / Boolean terms in
    unusual positions (inside relations, ITE conditions, function arguments), shadowing binders,
    shared sub-terms, constant arrays."""
    a, b, c = S("a"), S("b"), S("c")
    x, y, z = S("x", INT), S("y", INT), S("z", INT)
    r, s_ = S("r", REAL), S("s", REAL)
    BV4 = ("BV", 4)
    u, v = S("u", BV4), S("v", BV4)
    st = S("st", ("STRING",))
    arr = S("arr", ("ARRAY", INT, INT))
    barr = S("barr", ("ARRAY", INT, BOOL))
    US = ("CUSTOM", "U")
    e1 = S("e1", US)
    qa = [("a", BOOL)]
    qx = [("x", INT)]

    def f(t):
        return ("fun", "f", INT, (INT,), t)

    def p(t):
        return ("fun", "p", BOOL, (INT,), t)

    def g(t):
        return ("fun", "g", INT, (BOOL,), t)
    sh = [
        ("LT", x, y), ("LE", ("Plus", x, y), z), ("Equals", ("Times", x, ("lit", 2, INT)), ("Minus", y, z)),
        ("LT", ("Ite", a, x, y), z), ("LT", ("Ite", ("forall", qa, ("Or", a, b)), x, y), z),
        ("Equals", g(("forall", qa, ("Or", a, b))), x), ("Equals", g(("And", a, b)), x),
        ("And", p(x), ("Not", p(f(y)))), ("Equals", f(f(x)), y),
        ("LT", ("fun", "hu", INT, (US,), e1), x), p(("fun", "hu", INT, (US,), e1)),
        ("Equals", f(("fun", "hu", INT, (US,), ("fun", "mk", US, (("BV", 4),), u))), y),
        ("forall", qx, ("LT", x, y)), ("And", ("LT", x, y), ("exists", qx, ("LT", y, x))),
        ("exists", qx, ("forall", [("y", INT)], ("LE", x, y))), ("forall", qa, ("exists", qa, ("Or", a, b))),
        ("Equals", ("Select", arr, x), y), ("Equals", ("Store", arr, x, y), arr), ("Select", barr, x),
        ("And", ("Select", barr, x), a), ("Equals", ("Array", ("type", INT), ("lit", 0, INT)), arr),
        ("Not", ("Equals", ("Array", ("type", INT), ("lit", 0, INT)), arr)),
        ("Not", ("Equals", ("Array", ("type", US), ("lit", 0, INT)), ("Array", ("type", US), ("lit", 1, INT)))),
        ("BVULT", u, v), ("Equals", ("BVAdd", u, v), ("BVNot", u)), ("BVSLE", ("BVConcat", u, v), ("BVZExt", u, 4)),
        ("Equals", ("BVExtract", u, 1, 2), ("BVExtract", v, 0, 1)), ("Equals", ("BVToNatural", u), x),
        ("LT", ("BVToNatural", u), ("BVToNatural", v)), ("Equals", ("StrLength", st), ("StrLength", ("StrConcat", st, st))),
        # applications with arguments of several kinds: a non-Boolean term first, Boolean arguments after it, and the
        # same non-Boolean term used again outside the application
        ("And", ("fun", "pq", BOOL, (INT, BOOL), ("Plus", x, ("lit", 1, INT)), b), ("LE", ("Plus", x, ("lit", 1, INT)), ("lit", 3, INT))),
        ("Or", ("fun", "pq3", BOOL, (REAL, BOOL, BOOL), ("Plus", r, s_), a, b), ("LT", ("Plus", r, s_), r)),
        ("Equals", ("fun", "gq", INT, (("BV", 4), BOOL), ("BVAdd", u, v), a), ("BVToNatural", ("BVAdd", u, v))),
        # sorts that differ in structure but print alike: an instance of a parametric sort and a 0-ary sort of that name
        ("And", ("Equals", S("pa1", ("CUSTOM", "Pq", (("CUSTOM", "Aq"),))), S("pa2", ("CUSTOM", "Pq", (("CUSTOM", "Aq"),)))),
         ("exists", [("pm1", ("CUSTOM", "Pq{Aq}"))], ("Not", ("Equals", S("pm1", ("CUSTOM", "Pq{Aq}")), S("pm2", ("CUSTOM", "Pq{Aq}")))))),
        # array values whose contents are terms (symbols, applications), not constants
        ("Equals", ("Array", ("type", INT), x), arr), ("Equals", ("Array", ("type", INT), ("lit", 0, INT), ("dict", (("lit", 1, INT), f(y)))), arr),
        ("Equals", ("Array", ("type", INT), ("lit", 0, INT), ("dict", (("lit", 1, INT), ("BVToNatural", u)))), arr),
        ("Select", ("Array", ("type", INT), ("lit", False, BOOL), ("dict", (("lit", 2, INT), p(x)))), y),
        # a function whose parameter sort occurs nowhere else (compound argument of a new sort)
        ("Equals", ("fun", "f8", ("BV", 4), (("BV", 8),), ("BVConcat", u, v)), u),
        ("Equals", ("fun", "fr", INT, (REAL,), ("ToReal", x)), y), ("Equals", ("fun", "fs", INT, (("STRING",),), ("IntToStr", x)), y),
        ("Equals", ("fun", "fb", INT, (BOOL,), ("LT", r, s_)), y), ("Equals", ("fun", "f1", INT, (("BV", 1),), ("BVComp", u, v)), y),
        # a user sort that occurs inside an array sort only
        ("Equals", S("au1", ("ARRAY", INT, US)), S("au2", ("ARRAY", INT, US))),
        ("Equals", S("an1", ("ARRAY", INT, ("ARRAY", US, ("CUSTOM", "T")))), S("an2", ("ARRAY", INT, ("ARRAY", US, ("CUSTOM", "T"))))),
        # binders over variables that do not occur in the body, with names that need quoting
        ("forall", [("x", INT), ("y", INT)], ("LT", ("lit", 0, INT), x)), ("exists", [("b", BOOL)], a),
        ("forall", [("x'", INT), ("idx[0]", INT)], ("LT", S("x'", INT), S("idx[0]", INT))),
        ("LT", ("ToReal", x), r), ("Equals", ("Div", r, s_), r), ("LE", ("Pow", r, ("lit", 2, REAL)), s_),
        ("LE", ("Pow", r, ("lit", -1, REAL)), s_), ("LE", ("Pow", r, ("lit", Fraction(1, 2), REAL)), s_),
        ("LE", ("Pow", ("Plus", r, s_), ("lit", 3, REAL)), s_), ("LE", ("Pow", r, ("lit", -2, REAL)), ("Pow", s_, ("lit", 1, REAL))),
        ("Equals", ("Times", x, y), z), ("Equals", ("Times", x, y, z), z),
        ("Equals", ("StrLength", st), x), ("StrContains", st, ("lit", "a", ("STRING",))),
        ("Equals", ("IntToStr", x), st), ("Equals", ("StrLength", ("IntToStr", x)), y),
        ("Equals", ("StrToInt", st), x), ("Equals", ("StrIndexOf", st, st, x), y),
        ("Equals", e1, S("e2", US)), ("forall", [("e1", US)], ("Equals", e1, S("e2", US))),
        ("forall", [("u", BV4)], a), ("exists", [("st", ("STRING",))], b),
        ("And", ("Or", a, b), ("Iff", ("Or", a, b), c)), ("Ite", a, b, c), ("Ite", ("LT", x, y), a, b),
        ("Implies", ("And", a, ("LT", x, y)), ("Or", b, ("Not", ("LT", x, y)))),
        ("Iff", a, ("lit", True, BOOL)), ("And", a, ("lit", False, BOOL)),
        ("Equals", ("Plus", ("Plus", x, y), ("Plus", x, y)), z),
        ("LT", ("Plus", ("Times", x, ("lit", 3, INT)), ("lit", 1, INT)), ("lit", 7, INT)),
    ]
    return [Shape(t) for t in sh]


# ------------------------------------------------------------------------------------ thorough tier: contexts
TIER = {"name": "quick"}


def set_tier(tier):
    TIER["name"] = tier


def in_contexts(shapes, limit=None):
    """Thorough tier: every Boolean skeleton is also placed in each of a set of contexts (under a negation, as
    a conjunct / disjunct next to an unrelated atom, as condition and as branch of an if-then-else, under a
    binder of an unrelated and of one of its own symbols, twice in the same formula)."""
    p, q = S("ctx_p"), S("ctx_q")
    out = list(shapes)
    n = 0
    for sh in shapes:
        t = sh.t if isinstance(sh, Shape) else sh
        if not _is_boolean_shape(t):
            continue
        ctxs = [("Not", t), ("And", p, t), ("Or", t, ("Not", p)), ("Ite", p, t, q), ("Ite", t, p, q), ("Iff", t, ("And", t, p)),
                ("forall", [("ctx_p", BOOL)], ("Or", t, p)), ("Implies", ("Not", t), ("exists", [("ctx_q", BOOL)], ("And", q, t)))]
        if "forall" in repr(t) or "exists" in repr(t):
            # duplicating a quantified skeleton under <-> makes prenex / QE outputs (and their truth tables) explode
            ctxs = [c for c in ctxs if c[0] != "Iff"]
        for c in ctxs:
            out.append(Shape(c) if isinstance(sh, Shape) else c)
        n += 1
        if limit and n >= limit:
            break
    return out


_BOOL_HEADS = {"And", "Or", "Not", "Implies", "Iff", "LT", "LE", "Equals", "forall", "exists", "BVULT", "BVULE", "BVSLT",
               "BVSLE", "StrContains", "StrPrefixOf", "StrSuffixOf", "GE", "GT", "EqualsOrIff"}


def _is_boolean_shape(t):
    if not isinstance(t, tuple):
        return False
    if t[0] in _BOOL_HEADS:
        return True
    if t[0] == "sym":
        return t[2] == BOOL
    if t[0] == "lit":
        return t[2] == BOOL
    if t[0] == "fun":
        return t[2] == BOOL
    if t[0] == "Ite":
        return _is_boolean_shape(t[2])
    if t[0] == "Select":
        return False
    return False
