"""Independent reference semantics of pySMT's operators (written from the SMT-LIB theory
definitions, not from pySMT code).  Used by the rule oracles to decide extracted rewrite rules and
expansions by exhaustive evaluation over small domains (all bit-vector values at widths 1..4, small
integer / rational / string domains, all Boolean valuations).

Sorts: ('BOOL',) ('INT',) ('REAL',) ('STRING',) ('BV', w) ('ARRAY', idx, elem) ('FUN', ret, (params..))
('CUSTOM', name).
"""
from fractions import Fraction
import itertools

BOOL, INT, REAL, STRING = ("BOOL",), ("INT",), ("REAL",), ("STRING",)


def BV(w):
    return ("BV", w)


class Undefined(Exception):
    """The term has no fixed meaning under this assignment (division by zero in Int/Real): the
    property leaves such interpretations unconstrained."""


class NoSemantics(Exception):
    """Operator outside the reference semantics (quantifiers, algebraic constants ...)."""


def mask(w):
    return (1 << w) - 1


def to_signed(v, w):
    return v - (1 << w) if v & (1 << (w - 1)) else v


def smt_div(a, b):
    """SMT-LIB Ints `div`: the unique q with a = b*q + r, 0 <= r < |b|."""
    if b == 0:
        raise Undefined()
    q = a // b if b > 0 else -(a // -b)
    return q


def bvudiv(a, b, w):
    return mask(w) if b == 0 else a // b


def bvurem(a, b, w):
    return a if b == 0 else a % b


def bvneg(a, w):
    return (-a) & mask(w)


def bvsdiv(a, b, w):
    sa, sb = a >> (w - 1), b >> (w - 1)
    if not sa and not sb:
        return bvudiv(a, b, w)
    if sa and not sb:
        return bvneg(bvudiv(bvneg(a, w), b, w), w)
    if not sa and sb:
        return bvneg(bvudiv(a, bvneg(b, w), w), w)
    return bvudiv(bvneg(a, w), bvneg(b, w), w)


def bvsrem(a, b, w):
    sa, sb = a >> (w - 1), b >> (w - 1)
    if not sa and not sb:
        return bvurem(a, b, w)
    if sa and not sb:
        return bvneg(bvurem(bvneg(a, w), b, w), w)
    if not sa and sb:
        return bvurem(a, bvneg(b, w), w)
    return bvneg(bvurem(bvneg(a, w), bvneg(b, w), w), w)


def bvsmod(a, b, w):
    sa, sb = a >> (w - 1), b >> (w - 1)
    abs_a = bvneg(a, w) if sa else a
    abs_b = bvneg(b, w) if sb else b
    u = bvurem(abs_a, abs_b, w)
    if u == 0:
        return u
    if not sa and not sb:
        return u
    if sa and not sb:
        return (bvneg(u, w) + b) & mask(w)
    if not sa and sb:
        return (u + b) & mask(w)
    return bvneg(u, w)


def bvashr(a, b, w):
    s = to_signed(a, w)
    if b >= w:
        return mask(w) if s < 0 else 0
    return (s >> b) & mask(w)


def str_indexof(s, t, i):
    if i < 0 or i > len(s):
        return -1
    return s.find(t, i)


def str_substr(s, i, n):
    if i < 0 or i >= len(s) or n <= 0:
        return ""
    return s[i:i + n]


def str_replace(s, t, t2):
    if t == "":
        return t2 + s
    k = s.find(t)
    if k < 0:
        return s
    return s[:k] + t2 + s[k + len(t):]


def str_to_int(s):
    if s == "" or any(c not in "0123456789" for c in s):
        return -1
    return int(s)


def int_to_str(n):
    return "" if n < 0 else str(n)


class ArrVal(object):
    """Value of an array term: a default element and finitely many exceptions (kept only where they differ from
    the default, so equal functions over an infinite index sort have equal representations)."""
    __slots__ = ("default", "items", "index_sort")

    def __init__(self, default, items=(), index_sort=None):
        self.default = default
        self.items = frozenset((i, v) for i, v in dict(items).items() if v != default)
        self.index_sort = index_sort

    def select(self, i):
        return dict(self.items).get(i, self.default)

    def store(self, i, v):
        d = dict(self.items)
        d[i] = v
        return ArrVal(self.default, d, self.index_sort)

    def _finite(self):
        return self.index_sort is not None and self.index_sort[0] in ("BOOL", "BV")

    def __eq__(self, other):
        if not isinstance(other, ArrVal):
            return False
        if self._finite():
            return all(self.select(i) == other.select(i) for i in domain(self.index_sort))
        return self.default == other.default and self.items == other.items

    def __ne__(self, other):
        return not self.__eq__(other)

    def __hash__(self):
        return hash(("ArrVal", self.default if not self._finite() else None))

    def __repr__(self):
        return "[%r%s]" % (self.default, "".join(", %r:=%r" % kv for kv in sorted(self.items, key=repr)))


# operator name -> function(args values, widths info) ; widths: result width w for BV results
def apply(op, vals, w=None, payload=None, argw=None):
    """vals: operand values; w: width of the result for BV-valued operators; argw: width of the
    first BV operand for relations; payload: extra integers (extract bounds, rotate/extend steps)."""
    if op == "ARRAY_SELECT" and isinstance(vals[0], ArrVal):
        return vals[0].select(vals[1])
    if op == "ARRAY_STORE" and isinstance(vals[0], ArrVal):
        return vals[0].store(vals[1], vals[2])
    if op == "AND":
        return all(vals)
    if op == "OR":
        return any(vals)
    if op == "NOT":
        return not vals[0]
    if op == "IMPLIES":
        return (not vals[0]) or vals[1]
    if op == "IFF":
        return bool(vals[0]) == bool(vals[1])
    if op == "ITE":
        return vals[1] if vals[0] else vals[2]
    if op == "EQUALS":
        return vals[0] == vals[1]
    if op == "LE":
        return vals[0] <= vals[1]
    if op == "LT":
        return vals[0] < vals[1]
    if op == "PLUS":
        return sum(vals[1:], vals[0])
    if op == "MINUS":
        return vals[0] - vals[1]
    if op == "TIMES":
        r = vals[0]
        for v in vals[1:]:
            r = r * v
        return r
    if op == "DIV":
        a, b = vals
        if b == 0:
            raise Undefined()
        if isinstance(a, Fraction) or isinstance(b, Fraction):
            return Fraction(a) / Fraction(b)
        return smt_div(a, b)
    if op == "POW":
        a, b = vals
        if isinstance(b, Fraction) and b.denominator != 1:
            raise Undefined()
        b = int(b)
        if b < 0 and a == 0:
            raise Undefined()
        return Fraction(a) ** b
    if op == "TOREAL":
        return Fraction(vals[0])
    if op == "BV_NOT":
        return (~vals[0]) & mask(w)
    if op == "BV_AND":
        return vals[0] & vals[1]
    if op == "BV_OR":
        return vals[0] | vals[1]
    if op == "BV_XOR":
        return vals[0] ^ vals[1]
    if op == "BV_NEG":
        return bvneg(vals[0], w)
    if op == "BV_ADD":
        return (vals[0] + vals[1]) & mask(w)
    if op == "BV_SUB":
        return (vals[0] - vals[1]) & mask(w)
    if op == "BV_MUL":
        return (vals[0] * vals[1]) & mask(w)
    if op == "BV_UDIV":
        return bvudiv(vals[0], vals[1], w)
    if op == "BV_UREM":
        return bvurem(vals[0], vals[1], w)
    if op == "BV_SDIV":
        return bvsdiv(vals[0], vals[1], w)
    if op == "BV_SREM":
        return bvsrem(vals[0], vals[1], w)
    if op == "BV_LSHL":
        return 0 if vals[1] >= w else (vals[0] << vals[1]) & mask(w)
    if op == "BV_LSHR":
        return 0 if vals[1] >= w else vals[0] >> vals[1]
    if op == "BV_ASHR":
        return bvashr(vals[0], vals[1], w)
    if op == "BV_ULT":
        return vals[0] < vals[1]
    if op == "BV_ULE":
        return vals[0] <= vals[1]
    if op == "BV_SLT":
        return to_signed(vals[0], argw) < to_signed(vals[1], argw)
    if op == "BV_SLE":
        return to_signed(vals[0], argw) <= to_signed(vals[1], argw)
    if op == "BV_COMP":
        return 1 if vals[0] == vals[1] else 0
    if op == "BV_CONCAT":
        # payload: width of the right operand
        return (vals[0] << payload[0]) | vals[1]
    if op == "BV_EXTRACT":
        start, end = payload
        return (vals[0] >> start) & mask(end - start + 1)
    if op == "BV_ROL":
        k = payload[0] % w
        return ((vals[0] << k) | (vals[0] >> (w - k))) & mask(w)
    if op == "BV_ROR":
        k = payload[0] % w
        return ((vals[0] >> k) | (vals[0] << (w - k))) & mask(w)
    if op == "BV_ZEXT":
        return vals[0]
    if op == "BV_SEXT":
        # payload: (width of the operand)
        aw = payload[0]
        return to_signed(vals[0], aw) & mask(w)
    if op == "BV_TONATURAL":
        return vals[0]
    if op == "STR_LENGTH":
        return len(vals[0])
    if op == "STR_CONCAT":
        return "".join(vals)
    if op == "STR_CONTAINS":
        return vals[1] in vals[0]
    if op == "STR_INDEXOF":
        return str_indexof(*vals)
    if op == "STR_REPLACE":
        return str_replace(*vals)
    if op == "STR_SUBSTR":
        return str_substr(*vals)
    if op == "STR_PREFIXOF":
        return vals[1].startswith(vals[0])
    if op == "STR_SUFFIXOF":
        return vals[1].endswith(vals[0])
    if op == "STR_TO_INT":
        return str_to_int(vals[0])
    if op == "INT_TO_STR":
        return int_to_str(vals[0])
    if op == "STR_CHARAT":
        return str_substr(vals[0], vals[1], 1)
    raise NoSemantics(op)


# ------------------------------------------------------------------------------------ sorts
BV_SAMEWIDTH = {"BV_NOT", "BV_AND", "BV_OR", "BV_XOR", "BV_NEG", "BV_ADD", "BV_SUB", "BV_MUL", "BV_UDIV",
                "BV_UREM", "BV_SDIV", "BV_SREM", "BV_LSHL", "BV_LSHR", "BV_ASHR", "BV_ROL", "BV_ROR"}
BOOL_RESULT = {"AND", "OR", "NOT", "IMPLIES", "IFF", "EQUALS", "LE", "LT", "BV_ULT", "BV_ULE", "BV_SLT", "BV_SLE",
               "STR_CONTAINS", "STR_PREFIXOF", "STR_SUFFIXOF", "FORALL", "EXISTS", "BOOL_CONSTANT"}
INT_RESULT = {"STR_LENGTH", "STR_INDEXOF", "STR_TO_INT", "BV_TONATURAL", "INT_CONSTANT"}
STR_RESULT = {"STR_CONCAT", "STR_REPLACE", "STR_SUBSTR", "INT_TO_STR", "STR_CHARAT", "STR_CONSTANT"}
REAL_RESULT = {"TOREAL", "REAL_CONSTANT", "ALGEBRAIC_CONSTANT", "POW"}


def result_sort(op, arg_sorts, payload=None):
    """Sort of op applied to operands of the given sorts, or None if ill-typed.  payload holds the
    non-term parameters (widths, indices).  Widths may be python ints only."""
    a = arg_sorts
    allb = all(s == BOOL for s in a)
    if op in ("AND", "OR"):
        return BOOL if allb and len(a) >= 2 else None
    if op == "NOT":
        return BOOL if allb and len(a) == 1 else None
    if op in ("IMPLIES", "IFF"):
        return BOOL if allb and len(a) == 2 else None
    if op in ("FORALL", "EXISTS"):
        return BOOL if allb and len(a) == 1 else None
    if op in ("PLUS", "TIMES"):
        if len(a) >= 2 and all(s == a[0] for s in a) and a[0] in (INT, REAL):
            return a[0]
        return None
    if op in ("MINUS", "DIV"):
        if len(a) == 2 and a[0] == a[1] and a[0] in (INT, REAL):
            return a[0]
        return None
    if op == "POW":
        if len(a) == 2 and a[0] == a[1] and a[0] in (INT, REAL):
            return a[0]
        return None
    if op in ("LE", "LT"):
        return BOOL if len(a) == 2 and a[0] == a[1] and a[0] in (INT, REAL) else None
    if op == "EQUALS":
        if len(a) == 2 and a[0] == a[1] and a[0] != BOOL and a[0][0] != "FUN":
            return BOOL
        return None
    if op == "ITE":
        if len(a) == 3 and a[0] == BOOL and a[1] == a[2] and a[1][0] != "FUN":
            return a[1]
        return None
    if op == "TOREAL":
        return REAL if a == [INT] or a == (INT,) or list(a) == [INT] else None
    if op in BV_SAMEWIDTH:
        n = 1 if op in ("BV_NOT", "BV_NEG", "BV_ROL", "BV_ROR") else 2
        if len(a) == n and all(s[0] == "BV" for s in a) and all(s == a[0] for s in a):
            if op in ("BV_ROL", "BV_ROR") and payload is not None and not (0 <= payload[0] <= a[0][1]):
                return None
            return a[0]
        return None
    if op in ("BV_ULT", "BV_ULE", "BV_SLT", "BV_SLE"):
        return BOOL if len(a) == 2 and a[0][0] == "BV" and a[0] == a[1] else None
    if op == "BV_COMP":
        return BV(1) if len(a) == 2 and a[0][0] == "BV" and a[0] == a[1] else None
    if op == "BV_CONCAT":
        if len(a) == 2 and a[0][0] == "BV" and a[1][0] == "BV":
            return BV(a[0][1] + a[1][1])
        return None
    if op == "BV_EXTRACT":
        if len(a) == 1 and a[0][0] == "BV" and payload is not None:
            start, end = payload
            if 0 <= start <= end < a[0][1]:
                return BV(end - start + 1)
        return None
    if op in ("BV_ZEXT", "BV_SEXT"):
        if len(a) == 1 and a[0][0] == "BV" and payload is not None and payload[0] >= 0:
            return BV(a[0][1] + payload[0])
        return None
    if op == "BV_TONATURAL":
        return INT if len(a) == 1 and a[0][0] == "BV" else None
    if op == "STR_LENGTH":
        return INT if list(a) == [STRING] else None
    if op == "STR_CONCAT":
        return STRING if len(a) >= 2 and all(s == STRING for s in a) else None
    if op in ("STR_CONTAINS", "STR_PREFIXOF", "STR_SUFFIXOF"):
        return BOOL if list(a) == [STRING, STRING] else None
    if op == "STR_INDEXOF":
        return INT if list(a) == [STRING, STRING, INT] else None
    if op == "STR_REPLACE":
        return STRING if list(a) == [STRING, STRING, STRING] else None
    if op == "STR_SUBSTR":
        return STRING if list(a) == [STRING, INT, INT] else None
    if op == "STR_TO_INT":
        return INT if list(a) == [STRING] else None
    if op == "INT_TO_STR":
        return STRING if list(a) == [INT] else None
    if op == "STR_CHARAT":
        return STRING if list(a) == [STRING, INT] else None
    if op == "ARRAY_SELECT":
        if len(a) == 2 and a[0][0] == "ARRAY" and a[0][1] == a[1]:
            return a[0][2]
        return None
    if op == "ARRAY_STORE":
        if len(a) == 3 and a[0][0] == "ARRAY" and a[0][1] == a[1] and a[0][2] == a[2]:
            return a[0]
        return None
    raise NoSemantics(op)


# ------------------------------------------------------------------------------------ domains
def domain(sort, small=False):
    k = sort[0]
    if k == "BOOL":
        return [False, True]
    if k == "INT":
        return [-2, -1, 0, 1, 2, 3] if not small else [-1, 0, 2]
    if k == "REAL":
        return [Fraction(-1), Fraction(0), Fraction(1, 2), Fraction(2)] if not small else [Fraction(-1), Fraction(1, 2)]
    if k == "STRING":
        return ["", "a", "ab", "ba", "12", "-5"] if not small else ["", "ab", "12"]
    if k == "BV":
        return list(range(1 << sort[1]))
    if k == "ARRAY":
        idx, el = domain(sort[1], True), domain(sort[2], True)
        out = [ArrVal(el[0], (), sort[1]), ArrVal(el[-1], (), sort[1]), ArrVal(el[0], {idx[0]: el[-1]}, sort[1]),
               ArrVal(el[-1], {idx[-1]: el[0], idx[0]: el[0]}, sort[1])]
        return out
    raise NoSemantics("domain of %s" % (sort,))


def assignments(symbols, small=False):
    """symbols: list of (name, sort) -> iterator of dicts"""
    names = [n for n, _ in symbols]
    doms = [domain(s, small) for _, s in symbols]
    for combo in itertools.product(*doms):
        yield dict(zip(names, combo))
