"""Path-sensitive abstract interpreter for the Python subset the anchored pySMT code is written in.

It evaluates *source* (ast of /repo's current tree) over abstract values; it never imports or runs
pySMT.  Concrete Python values (ints, strings, tuples ...) are represented by themselves; abstract
values are instances of `Abs` subclasses supplied here or by a rule's domain:

  SymInt / SymBool   symbolic integer / condition terms (operands: names, constants, operators)
  AObj               an instance of a repository class: attributes + methods resolved through the
                     class table, methods are interpreted from their FunctionDef
  Unknown            no information

Branching on a condition that is not concrete asks `Explorer.decide`, which implements path forking
by decision replay: the entry function is run repeatedly, each run follows a recorded prefix of
decisions and extends it; every run is an independent, deterministic evaluation, so the interpreter
itself is a plain recursive evaluator.  Anything outside the supported subset raises Unsupported:
the instance being analysed becomes UNRECOGNISED (no verdict), never a guess.
"""
import ast
import itertools
import operator
from fractions import Fraction

from .loader import get_repo, norm, AnalysisError
from .opsets import get_ops, NotConst


class Unsupported(Exception):
    pass


class AbsRaise(Exception):
    """An exception raised by the interpreted program."""

    def __init__(self, cls_name, args=(), cls_qual=None):
        Exception.__init__(self, cls_name)
        self.cls_name = cls_name
        self.cls_qual = cls_qual
        self.exc_args = args

    def __repr__(self):
        return "AbsRaise(%s)" % self.cls_name


class _Return(Exception):
    def __init__(self, value):
        self.value = value


class _Break(Exception):
    pass


class _Continue(Exception):
    pass


# ------------------------------------------------------------------------------------ values
class Abs(object):
    """Base of abstract values."""
    pytype = None      # python type the value stands for, if known ('int', 'str', 'bool', ...)


class Unknown(Abs):
    def __init__(self, why=""):
        self.why = why

    def __repr__(self):
        return "Unknown(%s)" % self.why


class SymInt(Abs):
    """Symbolic integer term: ('var', name) | ('const', n) | (op, a, b) | (op, a)."""
    pytype = "int"
    __slots__ = ("t",)

    def __init__(self, t):
        self.t = t

    def __repr__(self):
        return "SymInt(%s)" % term_str(self.t)

    def __hash__(self):
        return hash(self.t)

    def __eq__(self, other):       # structural, used only by the analysis itself
        return isinstance(other, SymInt) and self.t == other.t


class SymBool(Abs):
    pytype = "bool"
    __slots__ = ("t",)

    def __init__(self, t):
        self.t = t

    def __repr__(self):
        return "SymBool(%s)" % term_str(self.t)


def term_of(v):
    if isinstance(v, (SymInt, SymBool)):
        return v.t
    if isinstance(v, bool):
        return ("const", v)
    if isinstance(v, int):
        return ("const", v)
    if isinstance(v, Fraction):
        return ("const", v)
    raise Unsupported("no term for %r" % (v,))


def term_str(t):
    if t[0] == "var":
        return t[1]
    if t[0] == "const":
        return repr(t[1])
    if len(t) == 3:
        return "(%s %s %s)" % (term_str(t[1]), t[0], term_str(t[2]))
    if len(t) == 2:
        return "%s(%s)" % (t[0], term_str(t[1]))
    return str(t)


def term_vars(t, out=None):
    out = set() if out is None else out
    if t[0] == "var":
        out.add(t[1])
    elif t[0] != "const":
        for x in t[1:]:
            if isinstance(x, tuple):
                term_vars(x, out)
    return out


_BIN = {ast.Add: "+", ast.Sub: "-", ast.Mult: "*", ast.FloorDiv: "//", ast.Mod: "%", ast.Pow: "**",
        ast.BitAnd: "&", ast.BitOr: "|", ast.BitXor: "^", ast.LShift: "<<", ast.RShift: ">>",
        ast.Div: "/"}
_CMP = {ast.Eq: "==", ast.NotEq: "!=", ast.Lt: "<", ast.LtE: "<=", ast.Gt: ">", ast.GtE: ">="}
_PYBIN = {"+": operator.add, "-": operator.sub, "*": operator.mul, "//": operator.floordiv,
          "%": operator.mod, "**": operator.pow, "&": operator.and_, "|": operator.or_,
          "^": operator.xor, "<<": operator.lshift, ">>": operator.rshift, "/": operator.truediv}
_PYCMP = {"==": operator.eq, "!=": operator.ne, "<": operator.lt, "<=": operator.le,
          ">": operator.gt, ">=": operator.ge}


def eval_term(t, env):
    """Concrete evaluation of a term under env: name -> python value (used by rule oracles)."""
    k = t[0]
    if k == "var":
        return env[t[1]]
    if k == "const":
        return t[1]
    if k in _PYBIN:
        a, b = eval_term(t[1], env), eval_term(t[2], env)
        if k == "**" and isinstance(b, int) and b < 0:
            raise ZeroDivisionError("negative power")
        if k in ("<<",) and b < 0:
            raise ValueError("negative shift")
        if k in (">>",) and b < 0:
            raise ValueError("negative shift")
        return _PYBIN[k](a, b)
    if k in _PYCMP:
        return _PYCMP[k](eval_term(t[1], env), eval_term(t[2], env))
    if k == "not":
        return not eval_term(t[1], env)
    if k == "neg":
        return -eval_term(t[1], env)
    if k == "inv":
        return ~eval_term(t[1], env)
    if k == "and":
        return bool(eval_term(t[1], env)) and bool(eval_term(t[2], env))
    if k == "or":
        return bool(eval_term(t[1], env)) or bool(eval_term(t[2], env))
    if k == "abs":
        return abs(eval_term(t[1], env))
    raise Unsupported("eval_term %s" % (k,))


_CUR_INTERP = [None]               # the interpretation in progress (one at a time per process)
_VALUE_EQ_PREFIX = "pysmt.typing."   # classes whose instances are compared / hashed through their own __eq__ / __hash__


_VALUE_EQ_CACHE = {}


def _value_eq_class(cls, dunder):
    """Does the repository class define its own __eq__ / __hash__ (then instances are compared / hashed through it, as
    Python does)?  Formula nodes, the pure value classes with their own fast path, exceptions and tuples are excluded."""
    it = _CUR_INTERP[0]
    if it is None:
        return False
    key = (id(it.repo), cls, dunder)
    r = _VALUE_EQ_CACHE.get(key)
    if r is None:
        r = False
        if cls in it.repo.classes and cls != "pysmt.fnode.FNode" and cls not in PURE_VALUE_CLASSES:
            try:
                q, f = it.repo.find_method(cls, dunder)
                r = f is not None and not it._is_exception_class(cls) and it._namedtuple_fields(cls) is None
            except Exception:
                r = False
        _VALUE_EQ_CACHE[key] = r
    return r


_IDHASH_COUNTER = [0]


class AObj(Abs):
    """Instance of a repository class (or of a modelled class)."""

    def __init__(self, cls, attrs=None, tag=None):
        self.cls = cls            # qualified class name
        self.attrs = attrs if attrs is not None else {}
        self.tag = tag

    def __repr__(self):
        return "<%s%s>" % (self.cls.split(".")[-1], (" " + str(self.tag)) if self.tag else "")

    def __hash__(self):
        # formula nodes hash like FNode does (their id), so that the analyser's own sets and dictionaries of
        # nodes iterate in the order CPython would give; sort objects hash and compare through the __hash__ / __eq__
        # their classes define (interpreted), so that dictionaries keyed by them behave as in Python; everything
        # else hashes by identity
        if self.cls == "pysmt.fnode.FNode":
            nid = self.attrs.get("_node_id")
            if isinstance(nid, int) and not isinstance(nid, bool):
                return nid
        elif _value_eq_class(self.cls, "__hash__"):
            it = _CUR_INTERP[0]
            if it is not None and not it._in_value_eq and "_sa_hash" not in self.attrs:
                it._in_value_eq += 1
                try:
                    h = it.call(it.getattr(self, "__hash__"), [])
                    if isinstance(h, int) and not isinstance(h, bool):
                        return h
                except (AbsRaise, Unsupported):
                    pass
                finally:
                    it._in_value_eq -= 1
        # identity hash, but reproducible: CPython hashes such objects by address, so the iteration order of a set of
        # them is arbitrary; a number drawn at the first hash request (counter restarted per interpretation, scrambled so
        # that the order is not the creation order either) gives one such order - the same in every run
        h = self.__dict__.get("_sa_idhash")
        if h is None:
            _IDHASH_COUNTER[0] += 1
            h = self.__dict__["_sa_idhash"] = (_IDHASH_COUNTER[0] * 2654435761) & 0x3FFFFFFF
        return h

    def __eq__(self, other):
        if self is other:
            return True
        if isinstance(other, AObj) and _value_eq_class(self.cls, "__eq__"):
            it = _CUR_INTERP[0]
            if it is not None and it._in_value_eq < 8:
                it._in_value_eq += 1
                try:
                    r = it.call(it.getattr(self, "__eq__"), [other])
                    if isinstance(r, bool):
                        return r
                except (AbsRaise, Unsupported):
                    pass
                finally:
                    it._in_value_eq -= 1
        return False

    def __ne__(self, other):
        return not self.__eq__(other)


class NTObj(AObj):
    """Instance of a namedtuple class: compares and hashes by value, field by field, like a tuple (members that are
    instances of repository classes compare by identity unless the analysis says otherwise)."""

    def _key(self):
        return (self.cls,) + tuple(_nt_key(self.attrs[f]) for f in self.fields)

    def __eq__(self, other):
        return isinstance(other, NTObj) and self._key() == other._key()

    def __ne__(self, other):
        return not self.__eq__(other)

    def __hash__(self):
        return hash(self._key())


def _nt_key(v):
    if isinstance(v, (tuple, list)):
        return tuple(_nt_key(x) for x in v)
    return v


class NTClass(Abs):
    """A class made by collections.namedtuple(name, fields)."""

    def __init__(self, name, fields):
        self.name = name
        self.fields = list(fields)

    def __repr__(self):
        return "namedtuple:%s" % self.name


class ClassRef(Abs):
    def __init__(self, qual):
        self.qual = qual

    def __eq__(self, other):
        return isinstance(other, ClassRef) and other.qual == self.qual

    def __ne__(self, other):
        return not self.__eq__(other)

    def __hash__(self):
        return hash(("ClassRef", self.qual))

    def __repr__(self):
        return "ClassRef(%s)" % self.qual


class ModRef(Abs):
    def __init__(self, name):
        self.name = name

    def __repr__(self):
        return "ModRef(%s)" % self.name


class Func(Abs):
    """An interpreted function: FunctionDef/Lambda + defining module (+ class) + closure."""

    def __init__(self, node, module, cls=None, closure=None, bound=None, name=None):
        self.node = node
        self.module = module
        self.cls = cls
        self.closure = closure
        self.bound = bound
        self.name = name or getattr(node, "name", "<lambda>")

    def bind(self, obj):
        return Func(self.node, self.module, self.cls, self.closure, obj, self.name)

    def __repr__(self):
        return "Func(%s%s)" % ((self.cls.split(".")[-1] + ".") if self.cls else "", self.name)


class Prim(Abs):
    """A primitive supplied by the rule: fn(interp, args, kwargs) -> value."""

    def __init__(self, fn, name="prim"):
        self.fn = fn
        self.name = name

    def __repr__(self):
        return "Prim(%s)" % self.name


class Partial(Abs):
    def __init__(self, fn, args, kwargs):
        self.fn, self.args, self.kwargs = fn, args, kwargs


class ExtRef(Abs):
    """Reference to something outside the repository (typing.cast, fractions.Fraction ...)."""

    def __init__(self, name):
        self.name = name

    def __repr__(self):
        return "ExtRef(%s)" % self.name


class _GenAbort(BaseException):
    pass


class GenObj(Abs):
    """A lazily evaluated generator of the interpreted program.  The body runs in its own thread,
    strictly alternating with the consumer (one of them is always blocked), so the interpreter state
    is never accessed concurrently."""

    def __init__(self, it, node, env, ctx, name):
        self.it, self.node, self.env, self.ctx, self.name = it, node, env, ctx, name
        self.thread = None
        self.done = False
        self.abort = False
        self.pending_throw = None
        self.msg = None
        it.generators.append(self)

    def __repr__(self):
        return "GenObj(%s)" % self.name

    def _run(self):
        try:
            self.it.exec_block(self.node.body, self.env, self.ctx)
            self.msg = ("return", None)
        except _Return as r:
            self.msg = ("return", r.value)
        except _GenAbort:
            self.msg = ("return", None)
        except BaseException as ex:       # AbsRaise, Unsupported, analyser errors: re-raised in the consumer
            self.msg = ("raise", ex)
        self.ready.release()

    def next(self):
        import threading
        if self.done:
            raise AbsRaise("StopIteration", ())
        if self.thread is None:
            self.resume = threading.Semaphore(0)
            self.ready = threading.Semaphore(0)
            self.thread = threading.Thread(target=self._run, daemon=True, name="sa-deep-gen")
            self.thread.start()
        else:
            self.resume.release()
        # the body runs now: one more active frame until it yields or returns
        it = self.it
        it.depth += 1
        if it.depth > it.max_depth:
            it.max_depth = it.depth
        self.ready.acquire()
        it.depth -= 1
        kind, val = self.msg
        if kind == "yield":
            return val
        self.done = True
        if kind == "return":
            raise AbsRaise("StopIteration", (val,))
        raise val

    def do_yield(self, v):
        self.msg = ("yield", v)
        self.ready.release()
        self.resume.acquire()
        if self.abort:
            raise _GenAbort()
        if self.pending_throw is not None:
            ex, self.pending_throw = self.pending_throw, None
            raise ex

    def throw(self, ex):
        """generator.throw(exc): the exception is raised inside the body at the yield it is suspended at"""
        if self.done or self.thread is None:
            self.done = True
            raise ex
        self.pending_throw = ex
        return self.next()

    def close(self):
        if self.thread is not None and not self.done:
            self.abort = True
            self.done = True
            self.resume.release()
            self.thread.join(timeout=5)

    def drain(self):
        out = []
        while True:
            try:
                out.append(self.next())
            except AbsRaise as ex:
                if ex.cls_name == "StopIteration":
                    return out
                raise


class CtxGen(Abs):
    """What a function under contextlib.contextmanager returns: __enter__ runs the generator to its yield, __exit__
    resumes it (normally, or by throwing the exception of the with-body into it)."""

    def __init__(self, gen):
        self.gen = gen

    def __repr__(self):
        return "CtxGen(%s)" % self.gen.name

    def enter(self, it, a, k):
        try:
            return self.gen.next()
        except AbsRaise as ex:
            if ex.cls_name == "StopIteration":
                raise AbsRaise("RuntimeError", ("generator didn't yield",))
            raise

    def exit(self, it, a, k):
        typ, val = (a + [None, None])[:2]
        if typ is None:
            try:
                self.gen.next()
            except AbsRaise as ex:
                if ex.cls_name == "StopIteration":
                    return False
                raise
            raise AbsRaise("RuntimeError", ("generator didn't stop",))
        thrown = AbsRaise(val.cls.split(".")[-1] if isinstance(val, AObj) else str(typ), val.attrs.get("args", ()) if isinstance(val, AObj) else ())
        if isinstance(val, AObj):
            thrown.cls_qual = val.cls
        try:
            self.gen.throw(thrown)
        except AbsRaise as ex:
            if ex.cls_name == "StopIteration":
                return True            # the generator swallowed the exception
            if ex is thrown:
                return False           # re-raised as it is: the with statement propagates the original
            raise
        raise AbsRaise("RuntimeError", ("generator didn't stop after throw()",))


class Env(object):
    __slots__ = ("vars", "parent")

    def __init__(self, parent=None):
        self.vars = {}
        self.parent = parent

    def lookup(self, name):
        e = self
        while e is not None:
            if name in e.vars:
                return True, e.vars[name]
            e = e.parent
        return False, None


# ------------------------------------------------------------------------------------ explorer
class Decision(object):
    __slots__ = ("cond", "value", "where")

    def __init__(self, cond, value, where):
        self.cond = cond      # term or description
        self.value = value
        self.where = where


class PathResult(object):
    def __init__(self, decisions, kind, value):
        self.decisions = decisions
        self.kind = kind      # 'return' | 'raise' | 'unsupported'
        self.value = value

    def facts(self):
        """Path condition as a list of terms (negated where the decision was False)."""
        out = []
        for d in self.decisions:
            if isinstance(d.cond, tuple):
                out.append(d.cond if d.value else ("not", d.cond))
        return out

    def __repr__(self):
        return "Path(%s -> %s %r)" % ([("" if d.value else "!") + (term_str(d.cond) if isinstance(d.cond, tuple) else str(d.cond))
                                       for d in self.decisions], self.kind, self.value)


class Explorer(object):
    """Decision-replay driver.  run(fn) calls fn(explorer) once per path."""

    def __init__(self, max_paths=400):
        self.max_paths = max_paths
        self.script = []
        self.pos = 0
        self.trace = []
        self.pending = []
        self.interps = []

    def _cleanup(self):
        for it in self.interps:
            for g in it.generators:
                g.close()
            it.generators = []
        self.interps = []

    def known(self, cond):
        """Value of a condition already decided on this path, else None (never forks)."""
        for d in self.trace:
            if d.cond == cond:
                return d.value
            if d.cond == ("not", cond) or cond == ("not", d.cond):
                return not d.value
        return None

    def decide(self, cond, where=""):
        """cond: term tuple (symbolic) or a string description.  Returns the branch taken."""
        # a condition already decided on this path keeps its value
        if isinstance(cond, tuple):
            for d in self.trace:
                if d.cond == cond:
                    return d.value
                if d.cond == ("not", cond):
                    return not d.value
                if cond == ("not", d.cond):
                    return not d.value
            v = self._implied(cond)
            if v is not None:
                return v
        if self.pos < len(self.script):
            val = self.script[self.pos]
        else:
            val = True
            self.script.append(True)
            self.pending.append(list(self.script[:-1]) + [False])
        self.pos += 1
        self.trace.append(Decision(cond, val, where))
        return val

    def _implied(self, cond):
        """Cheap entailment from the facts on the current path: constant propagation of
        `x == const` facts into comparisons of the same variable with constants."""
        if cond[0] in _PYCMP and cond[1][0] == "var" and cond[2][0] == "const":
            for d in self.trace:
                c = d.cond
                if isinstance(c, tuple) and d.value and c[0] == "==" and c[1] == cond[1] and c[2][0] == "const":
                    try:
                        return bool(_PYCMP[cond[0]](c[2][1], cond[2][1]))
                    except TypeError:
                        return None
        return None

    def run(self, fn):
        results = []
        self.pending = [[]]
        n = 0
        while self.pending:
            if n >= self.max_paths:
                raise Unsupported("more than %d paths" % self.max_paths)
            n += 1
            self.script = self.pending.pop()
            self.pos = 0
            self.trace = []
            try:
                try:
                    v = _run_deep(fn, self)
                finally:
                    self._cleanup()
                results.append(PathResult(list(self.trace), "return", v))
            except AbsRaise as ex:
                results.append(PathResult(list(self.trace), "raise", ex))
            except Unsupported as ex:
                results.append(PathResult(list(self.trace), "unsupported", str(ex)))
            except RecursionError:
                results.append(PathResult(list(self.trace), "unsupported", "recursion limit of the analyser"))
            except (_Return, _Break, _Continue):
                results.append(PathResult(list(self.trace), "unsupported", "control flow escaped the interpreter"))
            except Exception as ex:      # a defect of the analyser is never a verdict
                import traceback
                tb = traceback.extract_tb(ex.__traceback__)[-1]
                results.append(PathResult(list(self.trace), "unsupported",
                                          "analyser error %s: %s (%s:%d)" % (type(ex).__name__, ex, tb.filename.split("/")[-1], tb.lineno)))
        return results


PURE_VALUE_CLASSES = {"pysmt.logics.Theory", "pysmt.logics.Logic"}
_CMP_DUNDERS = {"__le__", "__lt__", "__ge__", "__gt__", "__eq__", "__ne__"}
_PURE_OK = {}
_PURE_CACHE = {}
_NOSIG = object()


def _pure_sig(v, depth=0):
    if v is None or isinstance(v, (bool, int, str)) and not isinstance(v, Abs):
        return v
    if isinstance(v, AObj) and v.cls in PURE_VALUE_CLASSES and depth < 3:
        items = []
        for k in sorted(v.attrs):
            x = _pure_sig(v.attrs[k], depth + 1)
            if x is _NOSIG:
                return _NOSIG
            items.append((k, x))
        return (v.cls, tuple(items))
    return _NOSIG


_TYPE_NAMES = {"str", "int", "bool", "float", "list", "tuple", "dict", "set", "frozenset", "bytes", "NoneType", "Fraction"}
_DEEP = {"set": False}


def _run_deep(fn, arg):
    """Run fn(arg) on a thread with a large stack and a high recursion limit: the interpreter recurses on
    the syntax of the interpreted program and on its call depth."""
    import threading
    import sys
    if not _DEEP["set"]:
        sys.setrecursionlimit(40000)
        _DEEP["set"] = True
    if threading.current_thread().name.startswith("sa-deep"):
        return fn(arg)
    threading.stack_size(256 * 1024 * 1024)
    box = {}

    def target():
        try:
            box["v"] = fn(arg)
        except BaseException as ex:
            box["e"] = ex
    t = threading.Thread(target=target, name="sa-deep")
    t.start()
    threading.stack_size(32 * 1024 * 1024)      # generator threads started from now on
    t.join()
    if "e" in box:
        raise box["e"]
    return box["v"]


# ------------------------------------------------------------------------------------ interpreter
BUILTIN_EXC = {"Exception": Exception, "ValueError": ValueError, "TypeError": TypeError,
               "KeyError": KeyError, "IndexError": IndexError, "AttributeError": AttributeError,
               "NotImplementedError": NotImplementedError, "AssertionError": AssertionError,
               "StopIteration": StopIteration, "ZeroDivisionError": ZeroDivisionError,
               "BaseException": BaseException, "RuntimeError": RuntimeError,
               "ArithmeticError": ArithmeticError, "LookupError": LookupError, "SyntaxError": SyntaxError,
               "OverflowError": OverflowError, "OSError": OSError, "IOError": IOError, "EOFError": EOFError,
               "NameError": NameError, "UnicodeError": UnicodeError, "GeneratorExit": GeneratorExit,
               "KeyboardInterrupt": KeyboardInterrupt, "SystemExit": SystemExit, "Warning": Warning,
               "UserWarning": UserWarning, "DeprecationWarning": DeprecationWarning, "ImportError": ImportError}


class Interp(object):
    def __init__(self, explorer, domain=None, repo=None, max_steps=200000, max_loop=64):
        self.repo = repo or get_repo()
        self.ops = get_ops()
        self.ex = explorer
        self.domain = domain          # rule-specific hooks (see Domain)
        self.steps = 0
        self.max_steps = max_steps
        self.max_loop = max_loop
        self.depth = 0
        self.max_depth = 0
        self.modcache = {}
        self.generators = []
        self.mod_inited = set()
        self.apply_decorators = set()    # qualified names of repository decorators to interpret
        self._decorated = {}
        self._in_value_eq = 0
        self._class_attr_vals = {}
        _CUR_INTERP[0] = self
        _IDHASH_COUNTER[0] = 0
        self._callkeys = []              # (function, argument identities) of the interpreted frames
        self._lru = {}                   # results of functions under functools.lru_cache / cache
        self.work = 0                    # cost of linear-time primitives (list membership, copies, sorting ...): see cost()
        if hasattr(explorer, "interps"):
            explorer.interps.append(self)

    # ------------------------------------------------------------------ helpers
    def unsupported(self, what, node=None):
        raise Unsupported("%s%s" % (what, (" at L%s" % node.lineno) if node is not None and hasattr(node, "lineno") else ""))

    def truth(self, v, where=""):
        """Python truthiness of a value, forking when it is symbolic."""
        if isinstance(v, Abs):
            if isinstance(v, SymBool):
                return self.ex.decide(v.t, where)
            if isinstance(v, SymInt):
                return self.ex.decide(("!=", v.t, ("const", 0)), where)
            if self.domain is not None:
                r = self.domain.truth(self, v, where)
                if r is not None:
                    return r
            if isinstance(v, (AObj, Func, Prim, ClassRef, ModRef, Partial)):
                return True
            from .extmodel import DequeModel, ExtModel
            if isinstance(v, DequeModel):
                return bool(v.items)
            if isinstance(v, (ExtModel, GenObj, ListIter)):
                return True
            self.unsupported("truth value of %r" % (v,))
        return bool(v)

    # ------------------------------------------------------------------ names
    def module_global(self, module, name):
        key = (module.name, name)
        if key in self.modcache:
            return self.modcache[key]
        v = self._module_global(module, name)
        self.modcache[key] = v
        return v

    def _needs_init(self, module):
        """Modules whose top level rebinds a name or fills containers in loops are initialised by
        interpreting their body in order (flow-sensitive), not by lazy per-name evaluation."""
        r = getattr(module, "_needs_init", None)
        if r is None:
            seen, r = set(), False
            for st in module.tree.body:
                if isinstance(st, (ast.For, ast.While, ast.AugAssign)):
                    r = True
                    break
                if isinstance(st, ast.Expr) and isinstance(st.value, ast.Call) and isinstance(st.value.func, ast.Attribute) and \
                        isinstance(st.value.func.value, ast.Name) and st.value.func.value.id in seen:
                    r = True                  # a container bound above is filled by a method call (TABLE.update(...), LIST.append(...))
                    break
                if isinstance(st, ast.AnnAssign) and isinstance(st.target, ast.Name):
                    seen.add(st.target.id)
                if isinstance(st, ast.Assign):
                    for t in st.targets:
                        for nm in [x.id for x in ast.walk(t) if isinstance(x, ast.Name)]:
                            if nm in seen:
                                r = True
                            seen.add(nm)
            module._needs_init = r
        return r

    def init_module(self, module):
        self.mod_inited.add(module.name)
        env = Env()
        ctx = _ModuleCtx(module)
        for st in module.tree.body:
            if isinstance(st, (ast.Import, ast.ImportFrom, ast.FunctionDef, ast.ClassDef, ast.AsyncFunctionDef)):
                continue
            if isinstance(st, ast.Expr) and isinstance(st.value, ast.Constant):
                continue
            if isinstance(st, ast.If) and "__name__" in ast.unparse(st.test):
                continue
            if isinstance(st, (ast.Assign, ast.AnnAssign)):
                tg = st.targets if isinstance(st, ast.Assign) else [st.target]
                names = [x.id for t in tg for x in ast.walk(t) if isinstance(x, ast.Name)]
                if names and all((module.name, nm) in self.modcache for nm in names) and \
                        not any(nm in env.vars for nm in names):
                    # already evaluated lazily: keep that object (identity matters for singletons)
                    for nm in names:
                        env.vars[nm] = self.modcache[(module.name, nm)]
                    continue
            try:
                self.exec_stmt(st, env, ctx)
            except (AbsRaise, Unsupported):
                # the names this statement binds stay lazily evaluated
                continue
            for k, v in env.vars.items():
                self.modcache[(module.name, k)] = v

    def _module_global(self, module, name):
        if self.domain is not None:
            hit, v = self.domain.global_override(self, module, name)
            if hit:
                return v
        if module.name not in self.mod_inited and self._needs_init(module):
            r0 = self.repo.resolve(module, name)
            if r0 is not None and r0[0] == "assign" and r0[1] is module:
                self.init_module(module)
                if (module.name, name) in self.modcache:
                    return self.modcache[(module.name, name)]
        if name == "__name__":
            return module.name
        r = self.repo.resolve(module, name)
        if r is None:
            if name in BUILTIN_EXC:
                return ExtRef(name)
            return self.builtin(name)
        return self.binding_value(r, name)

    def binding_value(self, r, name):
        k = r[0]
        if k == "class":
            return ClassRef(r[1])
        if k == "module":
            if r[1] in self.repo.modules:
                return ModRef(r[1])
            return ExtRef(r[1])
        if k == "func":
            return Func(r[2], r[1])
        if k == "external":
            return ExtRef(r[1])
        if k == "assign":
            _, m, st, target = r
            try:
                v = self.ops.ce.name(m, name)
                if isinstance(v, (dict, list, set)):
                    # a mutable module-level container: one object per interpretation (the folded constant is
                    # shared by the whole process and must never be mutated by an interpreted program)
                    dkey = (m.name, name)
                    if dkey not in self.modcache:
                        import copy
                        self.modcache[dkey] = copy.deepcopy(v)
                    return self.modcache[dkey]
                return v
            except NotConst:
                pass
            # one value per defining module and name, whichever module imports it (singletons)
            if isinstance(target, ast.Name):
                dkey = (m.name, target.id)
                if dkey in self.modcache:
                    return self.modcache[dkey]
                if m.name not in self.mod_inited and self._needs_init(m):
                    self.init_module(m)
                    if dkey in self.modcache:
                        return self.modcache[dkey]
            # evaluate the right-hand side in module context
            env = Env()
            val = self.eval(st.value, env, _ModuleCtx(m))
            if isinstance(target, ast.Name):
                self.modcache[(m.name, target.id)] = val
                return val
            if isinstance(target, (ast.Tuple, ast.List)):
                items = self.iterate(val)
                for e, x in zip(target.elts, items):
                    if isinstance(e, ast.Name):
                        self.modcache[(m.name, e.id)] = x
                for e, x in zip(target.elts, items):
                    if isinstance(e, ast.Name) and e.id == name:
                        return x
            self.unsupported("module-level unpacking of %s" % name)
        self.unsupported("binding kind %s for %s" % (k, name))

    def _pure_call(self, f, args):
        """Comparison methods of plain value classes (feature records) are functions of their operands'
        fields; their results are summarised once per process.  The summary is used only if the method
        body is syntactically free of stores and of calls other than comparisons."""
        ok = _PURE_OK.get((self.repo.root, f.cls, f.name))
        if ok is None:
            ok = True
            for n in ast.walk(f.node):
                if isinstance(n, (ast.Assign, ast.AugAssign, ast.Delete, ast.Global, ast.Nonlocal, ast.Yield, ast.YieldFrom)):
                    tg = getattr(n, "targets", None) or [getattr(n, "target", None)]
                    if any(isinstance(t, (ast.Attribute, ast.Subscript)) for t in tg if t is not None) or \
                            isinstance(n, (ast.Delete, ast.Global, ast.Nonlocal, ast.Yield, ast.YieldFrom)):
                        ok = False
                if isinstance(n, ast.Call):
                    fn = n.func
                    if not ((isinstance(fn, ast.Attribute) and fn.attr in _CMP_DUNDERS) or
                            (isinstance(fn, ast.Name) and fn.id in ("isinstance", "hash", "str", "bool"))):
                        ok = False
            _PURE_OK[(self.repo.root, f.cls, f.name)] = ok
        if not ok:
            return self.call_func(f, args, {})
        sig = tuple(_pure_sig(a) for a in [f.bound] + args)
        if any(x is _NOSIG for x in sig):
            return self.call_func(f, args, {})
        key = (self.repo.root, f.cls, f.name, sig)
        if key in _PURE_CACHE:
            return _PURE_CACHE[key]
        v = self.call_func(f, args, {})
        if isinstance(v, bool) or v is None:
            _PURE_CACHE[key] = v
        return v

    def builtin(self, name):
        if name in _BUILTINS:
            return _BUILTINS[name]
        if name in ("True", "False", "None"):
            return {"True": True, "False": False, "None": None}[name]
        self.unsupported("unknown name %s" % name)

    # ------------------------------------------------------------------ calls
    _LINEAR_PRIMS = {"list", "tuple", "set", "frozenset", "dict", "sorted", "sum", "any", "all", "min", "max", "zip",
                     "enumerate", "map", "filter", "reversed", "str.join"}

    def cost(self):
        """Interpreted steps plus the sizes of the containers handed to linear-time primitives (membership test in a
        list / tuple, copy, concatenation, slice, sort, sum ...): a measure that grows like the running time."""
        return self.steps + self.work

    def call(self, f, args, kwargs=None, node=None):
        kwargs = kwargs or {}
        self.steps += 1
        if isinstance(f, Prim) and f.name in self._LINEAR_PRIMS:
            for a_ in args:
                if isinstance(a_, (list, tuple, set, frozenset, dict)):
                    self.work += len(a_)
        if self.steps > self.max_steps:
            self.unsupported("step budget exhausted")
        if isinstance(f, Partial):
            kw = dict(f.kwargs)
            kw.update(kwargs)
            return self.call(f.fn, list(f.args) + list(args), kw, node)
        if isinstance(f, Prim):
            return f.fn(self, list(args), kwargs)
        if isinstance(f, Func):
            if f.cls in PURE_VALUE_CLASSES and f.name in _CMP_DUNDERS and f.bound is not None and not kwargs:
                return self._pure_call(f, list(args))
            return self.call_func(f, list(args), kwargs)
        if isinstance(f, ClassRef):
            return self.instantiate(f, list(args), kwargs, node)
        if isinstance(f, NTClass):
            vals = dict(zip(f.fields, args))
            vals.update(kwargs)
            if set(vals) != set(f.fields) or len(args) > len(f.fields):
                raise AbsRaise("TypeError", ("namedtuple %s expects fields %s" % (f.name, f.fields),))
            obj = NTObj("collections." + f.name, vals, tag="namedtuple")
            obj.fields = list(f.fields)
            return obj
        if isinstance(f, ExtRef):
            return self.call_ext(f, list(args), kwargs, node)
        if self.domain is not None:
            hit, v = self.domain.call(self, f, list(args), kwargs)
            if hit:
                return v
        if callable(f) and not isinstance(f, Abs):
            # plain python callable stored by a model (e.g. bound method of a concrete value)
            if any(isinstance(a, Abs) for a in args) or any(isinstance(v, Abs) for v in kwargs.values()):
                self.unsupported("python callable %r on abstract arguments" % (f,), node)
            try:
                return f(*args, **kwargs)
            except Exception as ex:
                raise AbsRaise(type(ex).__name__, ex.args)
        if isinstance(f, AObj) and f.cls in self.repo.classes:
            q, cm = self.repo.find_method(f.cls, "__call__")
            if cm is not None:
                return self.call_func(Func(cm, self.repo.classes[q].module, q, bound=f), list(args), kwargs)
            raise AbsRaise("TypeError", ("'%s' object is not callable" % f.cls.split(".")[-1],))
        if f is None or isinstance(f, (str, int, list, tuple, dict)):
            raise AbsRaise("TypeError", ("'%s' object is not callable" % type(f).__name__,))
        self.unsupported("call of %r" % (f,), node)

    _MEMO_DECORATORS = {"lru_cache", "functools.lru_cache", "cache", "functools.cache"}

    def _decorator_name(self, module, d):
        """Qualified name of a decorator expression: resolved through the module's imports (aliases included) when it
        names something outside the package, else its text."""
        e = d.func if isinstance(d, ast.Call) else d
        try:
            r = self.repo.resolve_expr(module, e) if module is not None else None
        except Exception:
            r = None
        if r and r[0] == "external":
            return r[1]
        if r and r[0] in ("func", "class"):
            return None                    # a decorator defined in the package
        return norm(e)

    def _memo_decorated(self, f):
        """True if the function carries a standard-library memoising decorator (functools.lru_cache / cache): the
        decorated function returns the *same object* for equal arguments for as long as the process lives."""
        node = f.node
        hit = getattr(node, "_sa_memo", None)
        if hit is None:
            hit = False
            for d in getattr(node, "decorator_list", ()):
                if self._decorator_name(f.module, d) in self._MEMO_DECORATORS:
                    hit = True
            try:
                node._sa_memo = hit
            except AttributeError:
                pass
        return hit

    def _memo_key(self, v):
        if isinstance(v, NTObj) or not isinstance(v, Abs):
            try:
                hash(v)
            except TypeError:
                raise AbsRaise("TypeError", ("unhashable argument of a memoised function",))
            return (type(v).__name__, v)
        return ("obj", id(v))

    def call_func(self, f, args, kwargs):
        if getattr(f.node, "decorator_list", None) and self._memo_decorated(f):
            full = ([f.bound] if f.bound is not None else []) + list(args)
            key = (id(f.node), tuple(self._memo_key(x) for x in full), tuple(sorted((k, self._memo_key(v)) for k, v in kwargs.items())))
            if key in self._lru:
                return self._lru[key][1]
            r = self._call_func(f, args, kwargs)
            self._lru[key] = (full, r)       # the arguments are kept alive with the entry (identity keys)
            return r
        return self._call_func(f, args, kwargs)

    def _call_func(self, f, args, kwargs):
        node = f.node
        if self.depth > 60:
            # the same function entered again and again with the very same arguments: unbounded recursion, which
            # Python ends with RecursionError (anything else: the analyser's own depth bound, no verdict)
            seen = {}
            for k_ in self._callkeys:
                seen[k_] = seen.get(k_, 0) + 1
            if seen and max(seen.values()) >= 4:
                raise AbsRaise("RecursionError", ("maximum recursion depth exceeded",))
            self.unsupported("interpreted call depth")
        env = Env(f.closure)
        a = node.args
        params = [p.arg for p in a.posonlyargs + a.args]
        if f.bound is not None:
            args = [f.bound] + args
        defaults = a.defaults
        ctx = _FuncCtx(f.module, f.cls)
        # positional
        if len(args) > len(params):
            if a.vararg is None:
                raise AbsRaise("TypeError", ("too many positional arguments for %s" % f.name,))
            env.vars[a.vararg.arg] = tuple(args[len(params):])
            args = args[:len(params)]
        elif a.vararg is not None:
            env.vars[a.vararg.arg] = ()
        for p, v in zip(params, args):
            env.vars[p] = v
        rest = params[len(args):]
        kw = dict(kwargs)
        for i, p in enumerate(rest):
            if p in kw:
                env.vars[p] = kw.pop(p)
            else:
                di = len(args) + i - (len(params) - len(defaults))
                if di >= 0:
                    env.vars[p] = self._default_value(f, node, ("pos", di), defaults[di], ctx)
                else:
                    raise AbsRaise("TypeError", ("missing argument %s of %s" % (p, f.name),))
        for p, d in zip(a.kwonlyargs, a.kw_defaults):
            if p.arg in kw:
                env.vars[p.arg] = kw.pop(p.arg)
            elif d is not None:
                env.vars[p.arg] = self._default_value(f, node, ("kw", p.arg), d, ctx)
            else:
                raise AbsRaise("TypeError", ("missing keyword argument %s" % p.arg,))
        if a.kwarg is not None:
            env.vars[a.kwarg.arg] = kw
        elif kw:
            for k in list(kw):
                if k in params[:len(args)]:
                    raise AbsRaise("TypeError", ("multiple values for %s" % k,))
            raise AbsRaise("TypeError", ("unexpected keyword arguments %s for %s" % (sorted(kw), f.name),))
        if isinstance(node, ast.Lambda):
            return self.eval(node.body, env, ctx)
        if _is_generator(node):
            g = GenObj(self, node, env, ctx, f.name)
            env.vars["__gen__"] = g
            if any(self._decorator_name(f.module, d) in ("contextmanager", "contextlib.contextmanager")
                   for d in getattr(node, "decorator_list", ())):
                return CtxGen(g)
            return g
        self.depth += 1
        if self.depth > self.max_depth:
            self.max_depth = self.depth
        self._callkeys.append((id(node), tuple(id(a_) for a_ in args)))
        try:
            self.exec_block(node.body, env, ctx)
        except _Return as r:
            return r.value
        finally:
            self.depth -= 1
            self._callkeys.pop()
        return None

    def run_generator(self, node, env, ctx):
        """Generators are run eagerly; the yielded values are collected into a list."""
        out = []
        env.vars["__yield__"] = out
        self.depth += 1
        try:
            self.exec_block(node.body, env, ctx)
        except _Return:
            pass
        finally:
            self.depth -= 1
        return out

    def instantiate(self, cref, args, kwargs, node=None):
        if self.domain is not None:
            hit, v = self.domain.instantiate(self, cref, args, kwargs)
            if hit:
                return v
        ci = self.repo.classes.get(cref.qual)
        if ci is None:
            self.unsupported("instantiate %s" % cref.qual, node)
        # exception classes
        if self._is_exception_class(cref.qual):
            return AObj(cref.qual, {"args": tuple(args)}, tag="exc")
        nt = self._namedtuple_fields(cref.qual)
        if nt is not None:
            vals = dict(zip(nt, args))
            vals.update(kwargs)
            if set(vals) != set(nt):
                for k_, v_ in self._namedtuple_defaults(cref.qual).items():
                    vals.setdefault(k_, v_)
            if set(vals) != set(nt):
                raise AbsRaise("TypeError", ("namedtuple %s expects fields %s" % (cref.qual, nt),))
            obj = AObj(cref.qual, vals, tag="namedtuple")
            obj.fields = nt
            return obj
        obj = AObj(cref.qual)
        q, init = self.repo.find_method(cref.qual, "__init__")
        if init is not None:
            self.call_func(Func(init, self.repo.classes[q].module, q, bound=obj), args, kwargs)
        return obj

    def _namedtuple_fields(self, qual):
        """class C(namedtuple('C', [fields])) -> fields"""
        for q in self.repo.mro(qual):
            for b in self.repo.classes[q].base_exprs:
                if isinstance(b, ast.Call) and (getattr(b.func, "id", None) == "namedtuple" or
                                                getattr(b.func, "attr", None) == "namedtuple") and len(b.args) == 2:
                    try:
                        f = ast.literal_eval(b.args[1])
                    except ValueError:
                        return None
                    return f.split() if isinstance(f, str) else list(f)
                # class C(typing.NamedTuple): the annotated names of the class body, in order
                if (isinstance(b, ast.Name) and b.id == "NamedTuple") or (isinstance(b, ast.Attribute) and b.attr == "NamedTuple"):
                    return [st.target.id for st in self.repo.classes[q].node.body
                            if isinstance(st, ast.AnnAssign) and isinstance(st.target, ast.Name)]
        return None

    def _namedtuple_defaults(self, qual):
        out = {}
        for q in self.repo.mro(qual):
            ci = self.repo.classes[q]
            if any((isinstance(b, ast.Name) and b.id == "NamedTuple") or (isinstance(b, ast.Attribute) and b.attr == "NamedTuple")
                   for b in ci.base_exprs):
                for st in ci.node.body:
                    if isinstance(st, ast.AnnAssign) and isinstance(st.target, ast.Name) and st.value is not None:
                        try:
                            out[st.target.id] = ast.literal_eval(st.value)
                        except ValueError:
                            pass
        return out

    def _is_exception_class(self, qual, seen=None):
        seen = seen or set()
        if qual in seen:
            return False
        seen.add(qual)
        ci = self.repo.classes.get(qual)
        if ci is None:
            return False
        for b in ci.base_exprs:
            nm = b.id if isinstance(b, ast.Name) else (b.attr if isinstance(b, ast.Attribute) else "")
            if nm in BUILTIN_EXC:
                return True
        return any(self._is_exception_class(b, seen) for b in ci.bases)

    def call_ext(self, f, args, kwargs, node=None):
        n = f.name.split(".")[-1]
        if n == "cast" and len(args) == 2:
            return args[1]
        if n in BUILTIN_EXC:
            return AObj("builtins." + n, {"args": tuple(args)}, tag="exc")
        if f.name == "object" and not args and not kwargs:
            return AObj("builtins.object", {}, tag="sentinel")      # object(): a fresh object, equal only to itself (sentinel idiom)
        if n == "Fraction":
            if all(not isinstance(a, Abs) for a in args):
                try:
                    return Fraction(*args)
                except Exception as ex:
                    raise AbsRaise(type(ex).__name__, ex.args)
            if self.domain is not None:
                hit, v = self.domain.call(self, f, args, kwargs)
                if hit:
                    return v
        if f.name in ("re.compile", "re.match", "re.search", "re.fullmatch", "re.sub", "re.escape", "re.finditer",
                      "re.findall", "re.split") and not _has_abs(args):
            import re as _re
            try:
                r = getattr(_re, n)(*args, **kwargs)
                return list(r) if n == "finditer" else r
            except Exception as ex:
                raise AbsRaise(type(ex).__name__, ex.args)
        if n == "defaultdict":
            import collections
            fac = args[0] if args else None
            real = {"list": list, "set": set, "dict": dict, "int": int}.get(getattr(fac, "name", None))
            if fac is not None and real is None:
                self.unsupported("defaultdict factory %r" % (fac,), node)
            return collections.defaultdict(real)
        if n in ("StringIO", "deque"):
            from .extmodel import StringIOModel, DequeModel
            if n == "StringIO":
                init = args[0] if args else ""
                if not isinstance(init, str):
                    self.unsupported("StringIO over abstract text", node)
                return StringIOModel(init)
            return DequeModel(self.iterate(args[0]) if args else [])
        if f.name.startswith("operator.") and not kwargs:
            # functions of the operator module: the corresponding expression, evaluated by the interpreter
            cmp_ = {"lt": ast.Lt, "le": ast.LtE, "gt": ast.Gt, "ge": ast.GtE, "eq": ast.Eq, "ne": ast.NotEq,
                    "is_": ast.Is, "is_not": ast.IsNot}
            bin_ = {"add": "+", "sub": "-", "mul": "*", "truediv": "/", "floordiv": "//", "mod": "%", "pow": "**",
                    "and_": "&", "or_": "|", "xor": "^", "lshift": "<<", "rshift": ">>"}
            if n in cmp_ and len(args) == 2:
                return self.compare(cmp_[n](), args[0], args[1], node)
            if n in bin_ and len(args) == 2:
                return self.binop(bin_[n], args[0], args[1], node)
            if n == "contains" and len(args) == 2:
                return self.contains(args[0], args[1], node)
            if n == "getitem" and len(args) == 2:
                return self.subscript_value(args[0], args[1])
            if n in ("neg", "not_", "truth", "pos", "invert", "index") and len(args) == 1:
                v = args[0]
                if n == "not_":
                    return not self.truth(v)
                if n == "truth":
                    return self.truth(v)
                if n == "neg":
                    return self.binop("-", 0, v, node)
                if n == "pos" or n == "index":
                    return v
        if n == "methodcaller" and args and isinstance(args[0], str):
            mname, margs, mkw = args[0], list(args[1:]), dict(kwargs)
            return Prim(lambda it, a, k: it.call(it.getattr(a[0], mname), margs, mkw), "methodcaller(%s)" % mname)
        if n == "attrgetter" and len(args) == 1 and isinstance(args[0], str):
            def _ag(it, a, k, path=args[0].split(".")):
                v = a[0]
                for p_ in path:
                    v = it.getattr(v, p_)
                return v
            return Prim(_ag, "attrgetter(%s)" % args[0])
        if n == "itemgetter" and len(args) == 1 and not isinstance(args[0], Abs):
            return Prim(lambda it, a, k, key=args[0]: it.subscript_value(a[0], key), "itemgetter(%r)" % (args[0],))
        if n == "partial":
            return Partial(args[0], args[1:], kwargs)
        if n == "reduce" and len(args) in (2, 3):
            items = list(self.iterate(args[1]))
            if len(args) == 3:
                acc = args[2]
            elif items:
                acc, items = items[0], items[1:]
            else:
                raise AbsRaise("TypeError", ("reduce() of empty iterable with no initial value",))
            for x in items:
                acc = self.call(args[0], [acc, x])
            return acc
        if n == "warn":
            return None
        if n in ("chain",):
            out = []
            for a in args:
                out.extend(self.iterate(a))
            return out
        if n == "from_iterable":
            out = []
            for a in self.iterate(args[0]):
                out.extend(self.iterate(a))
            return out
        if n == "combinations" and not isinstance(args[1], Abs):
            return list(itertools.combinations(self.iterate(args[0]), args[1]))
        if n == "product":
            return list(itertools.product(*[self.iterate(a) for a in args]))
        if n == "namedtuple":
            if len(args) == 2 and isinstance(args[0], str):
                fields = args[1].split() if isinstance(args[1], str) else list(self.iterate(args[1]))
                return NTClass(args[0], fields)
            return ExtRef("namedtuple")
        if n == "wraps":
            return Prim(lambda it, a, k: a[0], "wraps-id")
        if self.domain is not None:
            hit, v = self.domain.call(self, f, args, kwargs)
            if hit:
                return v
        self.unsupported("external call %s" % f.name, node)

    # ------------------------------------------------------------------ attribute access
    def getattr(self, obj, name, node=None):
        if self.domain is not None:
            hit, v = self.domain.getattr(self, obj, name)
            if hit:
                return v
        if isinstance(obj, AObj):
            if name in obj.attrs:
                return obj.attrs[name]
            if name == "__class__":
                return ClassRef(obj.cls)
            return self.class_attr(obj.cls, name, obj, node)
        if isinstance(obj, ClassRef):
            if name in ("__name__", "__qualname__"):
                return obj.qual.split(".")[-1]
            if name == "__module__":
                return obj.qual.rsplit(".", 1)[0]
            return self.class_attr(obj.qual, name, None, node)
        if isinstance(obj, ModRef):
            m = self.repo.modules[obj.name]
            sub = obj.name + "." + name
            if sub in self.repo.modules:
                return ModRef(sub)
            return self.module_global(m, name)
        if isinstance(obj, ExtRef):
            if obj.name == "re":
                import re as _re
                v = getattr(_re, name, None)
                if isinstance(v, _re.RegexFlag):
                    return v
            return ExtRef(obj.name + "." + name)
        if isinstance(obj, NTClass):
            self.unsupported("attribute %s of namedtuple class" % name, node)
        if isinstance(obj, Prim) and obj.name == "dict" and name == "fromkeys":
            def _fromkeys(it, a, k):
                out = {}
                for x in it.iterate(a[0]):
                    if isinstance(x, Abs) and not _hashable_abs(x):
                        it.unsupported("dict.fromkeys over %r" % (x,))
                    out[x] = a[1] if len(a) > 1 else None
                return out
            return Prim(_fromkeys, "dict.fromkeys")
        if isinstance(obj, Prim) and obj.name == "str" and name in ("join", "lower", "upper", "strip", "format", "startswith", "endswith"):
            return Prim(lambda it, a, k, n=name: it.py_method(a[0], n, list(a[1:]), k), "str." + name)
        if isinstance(obj, Func):
            if name == "__name__":
                return obj.name
            self.unsupported("attribute %s of function" % name, node)
        if isinstance(obj, Abs):
            from .extmodel import ExtModel
            if isinstance(obj, ExtModel):
                m = obj.method(name)
                if m is not None:
                    return Prim(m, "%s.%s" % (type(obj).__name__, name))
                if name == "closed":
                    return getattr(obj, "closed", False)
            if isinstance(obj, CtxGen) and name in ("__enter__", "__exit__"):
                return Prim(obj.enter if name == "__enter__" else obj.exit, "contextmanager." + name)
            if isinstance(obj, (GenObj, ListIter, CallIter)) and name in ("__next__", "next"):
                return Prim(lambda it, a, k, o=obj: o.next(), "next")
            if isinstance(obj, GenObj) and name == "close":
                return Prim(lambda it, a, k, o=obj: o.close(), "close")
            self.unsupported("attribute %s of %r" % (name, obj), node)
        # concrete python value
        return self.py_getattr(obj, name, node)

    def class_attr(self, qual, name, inst, node=None):
        if qual not in self.repo.classes:
            self.unsupported("attribute %s of external class %s" % (name, qual), node)
        for q in self.repo.mro(qual):
            ci = self.repo.classes[q]
            if name in ci.attrs:
                kind, v = ci.attrs[name]
                f = ci.own_func(name)
                if f is not None:
                    decs = [norm(d) for d in f.decorator_list]
                    if any(d.endswith(".setter") or d.endswith(".deleter") for d in decs):
                        # property with a setter: the getter is the earlier def of the same name
                        for st in ci.node.body:
                            if isinstance(st, ast.FunctionDef) and st.name == name and \
                                    any(norm(d) == "property" for d in st.decorator_list):
                                f = st
                                decs = [norm(d) for d in f.decorator_list]
                                break
                    fn = Func(f, ci.module, q)
                    if self.apply_decorators and f.decorator_list:
                        fn = self._decorate(fn, f, ci, q)
                    if "property" in decs:
                        if inst is None:
                            return fn
                        return self.call_func(fn.bind(inst), [], {})
                    if "staticmethod" in decs:
                        return fn
                    if "classmethod" in decs:
                        return fn.bind(ClassRef(qual))
                    # other decorators: ask the domain, default = see through
                    return fn.bind(inst) if inst is not None else fn
                if kind in ("expr", "unpack"):
                    # a class attribute is evaluated once, when the class is created: every instance (and every later
                    # access) sees the same object - a class-level dictionary is shared by all instances
                    ck = (q, name)
                    if ck in self._class_attr_vals:
                        return self._class_attr_vals[ck]
                    # class-body expressions see the class-level names bound before them
                    expr = v if kind == "expr" else v[0]
                    env = Env()
                    for nn in ast.walk(expr):
                        if isinstance(nn, ast.Name) and nn.id in ci.attrs and nn.id != name and nn.id not in env.vars:
                            env.vars[nn.id] = self.class_attr(q, nn.id, None, node)
                    val = self.eval(expr, env, _FuncCtx(ci.module, q))
                    val = val if kind == "expr" else self.iterate(val)[v[1]]
                    self._class_attr_vals[ck] = val
                    return val
        if inst is not None and inst.tag == "exc" and name in ("message", "args"):
            return inst.attrs.get("args", ())
        if name == "__init__" and self._is_exception_class(qual):
            # BaseException.__init__(self, *args): stores the arguments
            def _exc_init(it, a, k, inst=inst):
                tgt, rest = (inst, a) if inst is not None else (a[0], a[1:])
                if isinstance(tgt, AObj):
                    tgt.attrs["args"] = tuple(rest)
                return None
            return Prim(_exc_init, "BaseException.__init__")
        raise AbsRaise("AttributeError", ("%s has no attribute %s" % (qual, name),))

    def _default_value(self, f, node, which, expr, ctx):
        """Default values are computed once, when the `def` is executed, and shared by all calls (a mutable default is one
        object).  For a module-level function or a method that is once per interpretation; a nested function is defined anew
        each time its enclosing function runs (one closure environment per definition)."""
        cache = self.__dict__.setdefault("_default_vals", {})
        key = (id(node), id(f.closure) if f.closure is not None else None, which)
        hit = cache.get(key)
        if hit is not None and hit[0] is f.closure:
            return hit[1]
        v = self.eval(expr, Env(f.closure), ctx)
        cache[key] = (f.closure, v)
        return v

    def exc_pickle_roundtrip(self, obj):
        """What arrives when an exception instance of a repository class crosses a process boundary: pickle stores
        (class, self.args) and rebuilds it with class(*self.args).  self.args is what the class's own __init__ handed
        to BaseException.__init__ (all constructor arguments when there is no __init__).  Raises what the rebuild raises."""
        if not (isinstance(obj, AObj) and obj.tag == "exc" and obj.cls in self.repo.classes):
            return obj
        q, f = self.repo.find_method(obj.cls, "__init__")
        ctor_args = tuple(obj.attrs.get("args", ()))
        if f is None:
            return AObj(obj.cls, {"args": ctor_args}, tag="exc")
        probe = AObj(obj.cls, {"args": ctor_args}, tag="exc")
        self.call(self.getattr(probe, "__init__"), list(ctor_args))      # as at construction: fixes self.args
        stored = tuple(probe.attrs.get("args", ()))
        rebuilt = AObj(obj.cls, {"args": stored}, tag="exc")
        self.call(self.getattr(rebuilt, "__init__"), list(stored))        # class(*self.args)
        for k_, v_ in probe.attrs.items():
            if k_ != "args":
                rebuilt.attrs.setdefault(k_, v_)                            # the instance dictionary travels too
        return rebuilt

    def _decorate(self, fn, f, ci, q):
        """Apply, innermost first, the decorators of f that are repository functions named in
        self.apply_decorators (e.g. pysmt.decorators.clear_pending_pop); others are seen through."""
        key = (q, f.name)
        if key in self._decorated:
            return self._decorated[key]
        out = fn
        for d in reversed(f.decorator_list):
            dn = norm(d)
            if dn in ("property", "staticmethod", "classmethod") or dn.endswith(".setter"):
                continue
            r = self.repo.resolve_expr(ci.module, d.func if isinstance(d, ast.Call) else d)
            if r and r[0] == "func":
                qual = r[1].name + "." + r[2].name
                if qual in self.apply_decorators and not isinstance(d, ast.Call):
                    out = self.call(Func(r[2], r[1]), [out])
        self._decorated[key] = out
        return out

    _STR_METHODS = {"startswith", "endswith", "replace", "find", "join", "lower", "upper", "format", "split",
                    "strip", "isdigit", "isascii", "rjust", "ljust", "zfill", "count", "index", "lstrip", "rstrip"}

    def py_getattr(self, obj, name, node=None):
        if isinstance(obj, (str, list, tuple, dict, set, frozenset, int, Fraction, bool, range)) or obj is None:
            if not hasattr(obj, name):
                raise AbsRaise("AttributeError", ("%s has no attribute %s" % (type(obj).__name__, name),))
            if isinstance(obj, (int, Fraction)) and name in ("numerator", "denominator", "real", "imag"):
                return getattr(obj, name)
            if isinstance(obj, range) and name in ("start", "stop", "step"):
                return getattr(obj, name)
            return Prim(lambda it, a, k, o=obj, n=name: it.py_method(o, n, a, k), "%s.%s" % (type(obj).__name__, name))
        import re as _re
        if isinstance(obj, _re.Pattern) and name in ("match", "search", "fullmatch", "sub", "findall"):
            def call(it, a, k, o=obj, n=name):
                if _has_abs(a):
                    it.unsupported("regular expression on abstract text")
                return getattr(o, n)(*a, **k)
            return Prim(call, "re.Pattern." + name)
        if isinstance(obj, _re.Match) and name in ("group", "groups", "start", "end", "span", "groupdict"):
            return Prim(lambda it, a, k, o=obj, n=name: getattr(o, n)(*a, **k), "re.Match." + name)
        self.unsupported("attribute %s of python value %r" % (name, obj), node)

    def py_method(self, obj, name, args, kwargs):
        if isinstance(obj, (int, Fraction)) and name in ("numerator", "denominator"):
            return getattr(obj, name)
        if name in ("append", "add", "extend", "update", "pop", "clear", "setdefault", "get", "items", "keys",
                    "values", "insert", "remove", "discard", "copy", "index", "count", "reverse", "sort",
                    "difference", "union", "intersection", "issubset", "issuperset", "isdisjoint", "popitem",
                    "symmetric_difference", "difference_update", "intersection_update", "symmetric_difference_update"):
            if isinstance(obj, (set, frozenset)):
                # set algebra: members that are instances of repository classes compare by identity, as FNode does
                args = [self.iterate(a) if isinstance(a, (GenObj, ListIter)) else a for a in args]
                for a in args:
                    for x in (a if isinstance(a, (list, tuple, set, frozenset)) else ()):
                        if isinstance(x, (SymInt, SymBool)):
                            self.unsupported("set.%s over symbolic values" % name)
            if name in ("get", "setdefault", "pop") and isinstance(obj, dict) and args and isinstance(args[0], Abs) \
                    and not _hashable_abs(args[0]):
                self.unsupported("dict.%s with abstract key" % name)
            if isinstance(obj, list) and name in ("index", "count", "remove", "insert", "copy", "reverse", "sort", "extend") or \
                    isinstance(obj, (set, frozenset, dict)) and name in ("copy", "union", "difference", "intersection", "update",
                                                                        "symmetric_difference", "issubset", "issuperset"):
                if name not in ("extend", "update"):      # those cost the size of the argument only
                    self.work += len(obj)
                self.work += sum(len(a_) for a_ in args if isinstance(a_, (list, tuple, set, frozenset, dict)))
            if name in ("items", "keys", "values"):
                return list(getattr(obj, name)())
            if name == "sort":
                key = kwargs.get("key")
                if key is not None:
                    obj.sort(key=lambda x: self.call(key, [x]))
                else:
                    obj.sort()
                return None
            try:
                return getattr(obj, name)(*args, **kwargs)
            except (KeyError, IndexError, ValueError, TypeError) as ex:
                raise AbsRaise(type(ex).__name__, ex.args)
        if any(_has_abs(a) for a in args) or any(_has_abs(v) for v in kwargs.values()):
            if self.domain is not None:
                hit, v = self.domain.py_method(self, obj, name, args, kwargs)
                if hit:
                    return v
            if name == "join" and isinstance(obj, str):
                parts = list(self.iterate(args[0]))
                if all(isinstance(p, str) for p in parts):
                    return obj.join(parts)
            self.unsupported("%s.%s on abstract arguments" % (type(obj).__name__, name))
        if name == "join":
            return obj.join(list(self.iterate(args[0])))
        try:
            return getattr(obj, name)(*args, **kwargs)
        except Exception as ex:
            raise AbsRaise(type(ex).__name__, ex.args)

    # ------------------------------------------------------------------ iteration
    def gen_iter(self, g):
        while True:
            try:
                yield g.next()
            except AbsRaise as ex:
                if ex.cls_name == "StopIteration":
                    return
                raise

    def iterate(self, v, node=None):
        if isinstance(v, GenObj):
            return v.drain()
        if isinstance(v, ListIter):
            return v.rest()
        if isinstance(v, CallIter):
            return list(v.lazy())
        if isinstance(v, Abs) and not isinstance(v, (AObj, SymInt, SymBool)):
            from .extmodel import StringIOModel, DequeModel
            if isinstance(v, StringIOModel):
                return v.lines()
            if isinstance(v, DequeModel):
                return list(v.items)
        if isinstance(v, (list, tuple, set, frozenset, str, range)):
            return list(v)
        if isinstance(v, dict):
            return list(v.keys())
        if isinstance(v, AObj) and v.tag == "namedtuple":
            return [v.attrs[f] for f in v.fields]
        if isinstance(v, Abs) and self.domain is not None:
            hit, r = self.domain.iterate(self, v)
            if hit:
                return r
        if hasattr(v, "__iter__") and not isinstance(v, Abs):
            return list(v)
        if v is None or isinstance(v, (bool, int, float, Fraction)):
            raise AbsRaise("TypeError", ("'%s' object is not iterable" % type(v).__name__,))
        if isinstance(v, AObj) and v.cls in self.repo.classes:
            # the iteration protocol of a repository class: __iter__ (a generator function or one returning an iterator)
            q, f = self.repo.find_method(v.cls, "__iter__")
            if f is not None:
                r = self.call(self.getattr(v, "__iter__"), [])
                if r is not v:
                    return self.iterate(r, node)
        self.unsupported("iteration over %r" % (v,), node)

    # ------------------------------------------------------------------ statements
    def exec_block(self, stmts, env, ctx):
        for st in stmts:
            try:
                self.exec_stmt(st, env, ctx)
            except (AbsRaise, Unsupported) as ex:
                tr = getattr(ex, "trace", None)
                if tr is None:
                    tr = ex.trace = []
                if len(tr) < 12:
                    tr.append("%s:%s" % (ctx.module.name if ctx is not None and ctx.module is not None else "?",
                                         getattr(st, "lineno", "?")))
                raise

    def exec_stmt(self, st, env, ctx):
        self.steps += 1
        if self.steps > self.max_steps:
            self.unsupported("step budget exhausted")
        t = type(st)
        if t is ast.Expr:
            if isinstance(st.value, ast.Constant):
                return
            self.eval(st.value, env, ctx)
            return
        if t is ast.Assign:
            v = self.eval(st.value, env, ctx)
            for tgt in st.targets:
                self.assign(tgt, v, env, ctx)
            return
        if t is ast.AnnAssign:
            if st.value is not None:
                self.assign(st.target, self.eval(st.value, env, ctx), env, ctx)
            return
        if t is ast.AugAssign:
            cur = self.eval(_load(st.target), env, ctx)
            rhs = self.eval(st.value, env, ctx)
            if isinstance(cur, list) and isinstance(st.op, ast.Add):
                cur.extend(self.iterate(rhs, st))      # list.__iadd__: in place, any iterable
                return
            if isinstance(cur, set) and isinstance(st.op, (ast.BitOr, ast.BitAnd, ast.Sub)) and not isinstance(rhs, Abs):
                if isinstance(st.op, ast.BitOr):
                    cur |= set(rhs)
                elif isinstance(st.op, ast.BitAnd):
                    cur &= set(rhs)
                else:
                    cur -= set(rhs)
                return
            v = self.binop(_BIN[type(st.op)], cur, rhs, st)
            self.assign(st.target, v, env, ctx)
            return
        if t is ast.Return:
            raise _Return(self.eval(st.value, env, ctx) if st.value is not None else None)
        if t is ast.If:
            if self.truth(self.eval(st.test, env, ctx), "L%d" % st.lineno):
                self.exec_block(st.body, env, ctx)
            else:
                self.exec_block(st.orelse, env, ctx)
            return
        if t is ast.For:
            src = self.eval(st.iter, env, ctx)
            items = self.gen_iter(src) if isinstance(src, GenObj) else (src.lazy() if isinstance(src, CallIter) else self.iterate(src, st))
            broke = False
            for it in items:
                self.assign(st.target, it, env, ctx)
                try:
                    self.exec_block(st.body, env, ctx)
                except _Break:
                    broke = True
                    break
                except _Continue:
                    continue
            if not broke:
                self.exec_block(st.orelse, env, ctx)
            return
        if t is ast.While:
            n = 0
            broke = False
            while self.truth(self.eval(st.test, env, ctx), "L%d" % st.lineno):
                n += 1
                if n > self.max_loop:
                    self.unsupported("while loop exceeds %d iterations" % self.max_loop, st)
                try:
                    self.exec_block(st.body, env, ctx)
                except _Break:
                    broke = True
                    break
                except _Continue:
                    continue
            if not broke:
                self.exec_block(st.orelse, env, ctx)
            return
        if t is ast.Raise:
            if st.exc is None:
                cur = env.lookup("__current_exc__")
                if cur[0] and cur[1] is not None:
                    raise cur[1]
                self.unsupported("bare raise", st)
            e = self.eval(st.exc, env, ctx)
            raise self.to_raise(e, st)
        if t is ast.Assert:
            if not self.truth(self.eval(st.test, env, ctx), "assert L%d" % st.lineno):
                raise AbsRaise("AssertionError", ())
            return
        if t is ast.Pass:
            return
        if t is ast.Break:
            raise _Break()
        if t is ast.Continue:
            raise _Continue()
        if t is ast.Try:
            return self.exec_try(st, env, ctx)
        if t in (ast.FunctionDef,):
            env.vars[st.name] = Func(st, ctx.module, None, closure=env)
            return
        if t in (ast.Import, ast.ImportFrom):
            for a in st.names:
                nm = a.asname or a.name.split(".")[0]
                if t is ast.ImportFrom:
                    mod = st.module or ""
                    sub = mod + "." + a.name
                    if sub in self.repo.modules:
                        env.vars[nm] = ModRef(sub)
                    elif mod in self.repo.modules:
                        env.vars[nm] = self.module_global(self.repo.modules[mod], a.name)
                    else:
                        env.vars[nm] = ExtRef(sub)
                else:
                    full = a.name if a.asname else a.name.split(".")[0]
                    env.vars[nm] = ModRef(full) if full in self.repo.modules else ExtRef(full)
            return
        if t is ast.Delete:
            for tg in st.targets:
                if isinstance(tg, ast.Subscript) and isinstance(tg.slice, ast.Slice):
                    c = self.eval(tg.value, env, ctx)
                    sl = tg.slice
                    lo = self.eval(sl.lower, env, ctx) if sl.lower is not None else None
                    hi = self.eval(sl.upper, env, ctx) if sl.upper is not None else None
                    stp = self.eval(sl.step, env, ctx) if sl.step is not None else None
                    if isinstance(c, list) and not any(isinstance(v, Abs) for v in (lo, hi, stp)):
                        del c[slice(lo, hi, stp)]
                        continue
                    self.unsupported("del of a slice of %r" % (c,), st)
                if isinstance(tg, ast.Name):
                    if tg.id in env.vars:
                        del env.vars[tg.id]
                        continue
                if isinstance(tg, ast.Attribute):
                    o = self.eval(tg.value, env, ctx)
                    if isinstance(o, AObj) and tg.attr in o.attrs:
                        del o.attrs[tg.attr]
                        continue
                if isinstance(tg, ast.Subscript):
                    c = self.eval(tg.value, env, ctx)
                    k = self.eval(tg.slice, env, ctx)
                    if isinstance(c, (dict, list)) and (not isinstance(k, Abs) or _hashable_abs(k)):
                        try:
                            del c[k]
                        except (KeyError, IndexError) as ex:
                            raise AbsRaise(type(ex).__name__, ex.args)
                        continue
                self.unsupported("del", st)
            return
        if t is ast.With:
            mgrs = []
            for item in st.items:
                cm = self.eval(item.context_expr, env, ctx)
                v = self.call(self.getattr(cm, "__enter__", st), [])
                mgrs.append(cm)
                if item.optional_vars is not None:
                    self.assign(item.optional_vars, v, env, ctx)
            try:
                self.exec_block(st.body, env, ctx)
            except AbsRaise as ex:
                suppressed = False
                for cm in reversed(mgrs):
                    exc_obj = AObj(ex.cls_qual or ("builtins." + ex.cls_name), {"args": ex.exc_args}, tag="exc")
                    r = self.call(self.getattr(cm, "__exit__", st), [ExtRef(ex.cls_name), exc_obj, None])
                    if not isinstance(r, Abs) and r:
                        suppressed = True
                if not suppressed:
                    raise
                return
            except (_Return, _Break, _Continue):
                for cm in reversed(mgrs):
                    self.call(self.getattr(cm, "__exit__", st), [None, None, None])
                raise
            for cm in reversed(mgrs):
                self.call(self.getattr(cm, "__exit__", st), [None, None, None])
            return
        if t is ast.Global or t is ast.Nonlocal:
            return
        self.unsupported("statement %s" % t.__name__, st)

    def to_raise(self, e, node=None):
        if isinstance(e, AbsRaise):
            return e
        if isinstance(e, AObj):
            return AbsRaise(e.cls.split(".")[-1], e.attrs.get("args", ()), e.cls)
        if isinstance(e, ClassRef):
            return AbsRaise(e.qual.split(".")[-1], (), e.qual)
        if isinstance(e, ExtRef):
            return AbsRaise(e.name.split(".")[-1], ())
        self.unsupported("raise of %r" % (e,), node)

    def exc_matches(self, ex, typ_val):
        """Does AbsRaise ex match the `except T` clause value?"""
        if typ_val is None:
            return True
        if isinstance(typ_val, tuple):
            return any(self.exc_matches(ex, t) for t in typ_val)
        if isinstance(typ_val, ExtRef):
            want = typ_val.name.split(".")[-1]
            have = ex.cls_name
            if have == want or want == "BaseException":
                return True
            if want == "Exception" and have not in ("KeyboardInterrupt", "SystemExit", "GeneratorExit") and \
                    (have not in BUILTIN_EXC or issubclass(BUILTIN_EXC[have], Exception)):
                return True
            if want in BUILTIN_EXC and have in BUILTIN_EXC:
                return issubclass(BUILTIN_EXC[have], BUILTIN_EXC[want])
            # repo exception deriving from a builtin
            if ex.cls_qual and want in BUILTIN_EXC:
                return self._derives_builtin(ex.cls_qual, want)
            return False
        if isinstance(typ_val, ClassRef):
            if ex.cls_qual is None:
                return False
            return typ_val.qual in self.repo.mro(ex.cls_qual) if ex.cls_qual in self.repo.classes else False
        return False

    def _derives_builtin(self, qual, want):
        for q in self.repo.mro(qual):
            for b in self.repo.classes[q].base_exprs:
                nm = b.id if isinstance(b, ast.Name) else (b.attr if isinstance(b, ast.Attribute) else "")
                if nm in BUILTIN_EXC and issubclass(BUILTIN_EXC[nm], BUILTIN_EXC[want]):
                    return True
        return False

    def exec_try(self, st, env, ctx):
        try:
            try:
                self.exec_block(st.body, env, ctx)
            except AbsRaise as ex:
                for h in st.handlers:
                    tv = self.eval(h.type, env, ctx) if h.type is not None else None
                    if self.exc_matches(ex, tv):
                        if h.name:
                            env.vars[h.name] = AObj(ex.cls_qual or ("builtins." + ex.cls_name),
                                                    {"args": ex.exc_args}, tag="exc")
                        env.vars["__current_exc__"] = ex
                        self.exec_block(h.body, env, ctx)
                        break
                else:
                    raise
            else:
                self.exec_block(st.orelse, env, ctx)
        finally:
            if st.finalbody:
                self.exec_block(st.finalbody, env, ctx)

    def assign(self, tgt, v, env, ctx):
        if isinstance(tgt, ast.Name):
            env.vars[tgt.id] = v
            return
        if isinstance(tgt, (ast.Tuple, ast.List)):
            items = self.iterate(v, tgt)
            star = [i for i, e in enumerate(tgt.elts) if isinstance(e, ast.Starred)]
            if star:
                i = star[0]
                n_after = len(tgt.elts) - i - 1
                if len(items) < len(tgt.elts) - 1:
                    raise AbsRaise("ValueError", ("not enough values to unpack",))
                for e, x in zip(tgt.elts[:i], items[:i]):
                    self.assign(e, x, env, ctx)
                self.assign(tgt.elts[i].value, list(items[i:len(items) - n_after]), env, ctx)
                for e, x in zip(tgt.elts[i + 1:], items[len(items) - n_after:]):
                    self.assign(e, x, env, ctx)
                return
            if len(items) != len(tgt.elts):
                raise AbsRaise("ValueError", ("unpack %d values into %d targets" % (len(items), len(tgt.elts)),))
            for e, x in zip(tgt.elts, items):
                self.assign(e, x, env, ctx)
            return
        if isinstance(tgt, ast.Attribute):
            o = self.eval(tgt.value, env, ctx)
            if self.domain is not None and self.domain.setattr(self, o, tgt.attr, v):
                return
            if isinstance(o, AObj):
                o.attrs[tgt.attr] = v
                return
            self.unsupported("attribute store on %r" % (o,), tgt)
        if isinstance(tgt, ast.Subscript):
            c = self.eval(tgt.value, env, ctx)
            k = self.eval(tgt.slice, env, ctx)
            if self.domain is not None and self.domain.setitem(self, c, k, v):
                return
            if isinstance(c, (dict, list)):
                if isinstance(k, Abs) and not _hashable_abs(k):
                    self.unsupported("store under abstract key", tgt)
                try:
                    c[k] = v
                except (IndexError, TypeError) as ex:
                    raise AbsRaise(type(ex).__name__, ex.args)
                return
            self.unsupported("subscript store on %r" % (c,), tgt)
        self.unsupported("assignment target %s" % type(tgt).__name__, tgt)

    # ------------------------------------------------------------------ expressions
    def eval(self, n, env, ctx):
        t = type(n)
        if t is ast.Constant:
            return n.value
        if t is ast.Name:
            hit, v = env.lookup(n.id)
            if hit:
                return v
            return self.module_global(ctx.module, n.id)
        if t is ast.Attribute:
            return self.getattr(self.eval(n.value, env, ctx), n.attr, n)
        if t is ast.Call:
            return self.eval_call(n, env, ctx)
        if t is ast.BinOp:
            return self.binop(_BIN[type(n.op)], self.eval(n.left, env, ctx), self.eval(n.right, env, ctx), n)
        if t is ast.UnaryOp:
            v = self.eval(n.operand, env, ctx)
            if isinstance(n.op, ast.Not):
                if isinstance(v, SymBool):
                    return SymBool(("not", v.t))
                return not self.truth(v, "not L%d" % n.lineno)
            if isinstance(v, Abs):
                if isinstance(v, SymInt):
                    k = {ast.USub: "neg", ast.Invert: "inv", ast.UAdd: None}[type(n.op)]
                    return v if k is None else SymInt((k, v.t))
                if self.domain is not None:
                    hit, r = self.domain.unop(self, type(n.op).__name__, v)
                    if hit:
                        return r
                self.unsupported("unary op on %r" % (v,), n)
            if isinstance(n.op, ast.USub):
                return -v
            if isinstance(n.op, ast.Invert):
                return ~v
            return +v
        if t is ast.BoolOp:
            isand = isinstance(n.op, ast.And)
            v = None
            for e in n.values:
                v = self.eval(e, env, ctx)
                tv = self.truth(v, "L%d" % n.lineno)
                if isand and not tv:
                    return v if not isinstance(v, Abs) else False
                if not isand and tv:
                    return v if not isinstance(v, Abs) else True
            return v if not isinstance(v, SymBool) else (True if isand else False)
        if t is ast.Compare:
            left = self.eval(n.left, env, ctx)
            res = True
            for op, c in zip(n.ops, n.comparators):
                right = self.eval(c, env, ctx)
                r = self.compare(op, left, right, n)
                if len(n.ops) == 1:
                    return r
                if not self.truth(r, "L%d" % n.lineno):
                    return False
                left = right
            return res
        if t is ast.IfExp:
            if self.truth(self.eval(n.test, env, ctx), "L%d" % n.lineno):
                return self.eval(n.body, env, ctx)
            return self.eval(n.orelse, env, ctx)
        if t is ast.Tuple:
            return tuple(self.eval_elts(n.elts, env, ctx))
        if t is ast.List:
            return list(self.eval_elts(n.elts, env, ctx))
        if t is ast.Set:
            return set(self.eval_elts(n.elts, env, ctx))
        if t is ast.Dict:
            d = {}
            for k, v in zip(n.keys, n.values):
                if k is None:
                    d.update(self.eval(v, env, ctx))
                else:
                    d[self.eval(k, env, ctx)] = self.eval(v, env, ctx)
            return d
        if t is ast.Subscript:
            return self.subscript(self.eval(n.value, env, ctx), n.slice, env, ctx, n)
        if t in (ast.ListComp, ast.GeneratorExp, ast.SetComp):
            out = []
            self.comp(n.generators, 0, env, ctx, lambda e: out.append(self.eval(n.elt, e, ctx)))
            return set(out) if t is ast.SetComp else out
        if t is ast.DictComp:
            d = {}

            def put(e):
                d[self.eval(n.key, e, ctx)] = self.eval(n.value, e, ctx)
            self.comp(n.generators, 0, env, ctx, put)
            return d
        if t is ast.Lambda:
            return Func(n, ctx.module, ctx.cls, closure=env)
        if t is ast.JoinedStr:
            parts = []
            for v in n.values:
                if isinstance(v, ast.Constant):
                    parts.append(v.value)
                else:
                    x = self.eval(v.value, env, ctx)
                    parts.append(self.to_str(x, n))
            return self.concat_str(parts, n)
        if t is ast.Yield:
            hit, g = env.lookup("__gen__")
            if not hit:
                self.unsupported("yield outside generator", n)
            g.do_yield(self.eval(n.value, env, ctx) if n.value is not None else None)
            return None
        if t is ast.YieldFrom:
            hit, g = env.lookup("__gen__")
            if not hit:
                self.unsupported("yield from outside generator", n)
            src = self.eval(n.value, env, ctx)
            for x in (self.gen_iter(src) if isinstance(src, GenObj) else self.iterate(src, n)):
                g.do_yield(x)
            return None
        if t is ast.Starred:
            self.unsupported("starred expression", n)
        if t is ast.NamedExpr:
            v = self.eval(n.value, env, ctx)
            env.vars[n.target.id] = v
            return v
        self.unsupported("expression %s" % t.__name__, n)

    def to_str(self, x, node=None):
        if isinstance(x, Abs):
            if self.domain is not None:
                hit, r = self.domain.to_str(self, x)
                if hit:
                    return r
            self.unsupported("str() of %r" % (x,), node)
        return str(x)

    def concat_str(self, parts, node=None):
        if all(isinstance(p, str) for p in parts):
            return "".join(parts)
        if self.domain is not None:
            hit, r = self.domain.concat_str(self, parts)
            if hit:
                return r
        self.unsupported("string concatenation with abstract parts", node)

    def comp(self, gens, i, env, ctx, emit):
        if i == len(gens):
            emit(env)
            return
        g = gens[i]
        for it in self.iterate(self.eval(g.iter, env, ctx), g.iter):
            e2 = Env(env)
            self.assign(g.target, it, e2, ctx)
            if all(self.truth(self.eval(c, e2, ctx), "comp") for c in g.ifs):
                self.comp(gens, i + 1, e2, ctx, emit)

    def eval_elts(self, elts, env, ctx):
        out = []
        for e in elts:
            if isinstance(e, ast.Starred):
                out.extend(self.iterate(self.eval(e.value, env, ctx), e))
            else:
                out.append(self.eval(e, env, ctx))
        return out

    def eval_call(self, n, env, ctx):
        # super().__init__ / super().method
        if isinstance(n.func, ast.Attribute) and isinstance(n.func.value, ast.Call) and \
                isinstance(n.func.value.func, ast.Name) and n.func.value.func.id == "super":
            hit, selfv = env.lookup("self")
            if not hit or ctx.cls is None or not isinstance(selfv, AObj):
                self.unsupported("super() outside method", n)
            mro = self.repo.mro(selfv.cls)
            start = mro.index(ctx.cls) + 1 if ctx.cls in mro else 0
            for q in mro[start:]:
                f = self.repo.classes[q].own_func(n.func.attr)
                if f is not None:
                    fn = Func(f, self.repo.classes[q].module, q, bound=selfv)
                    args, kwargs = self.eval_args(n, env, ctx)
                    return self.call(fn, args, kwargs, n)
            return None
        if isinstance(n.func, ast.Name) and n.func.id == "cast" and len(n.args) == 2 and not n.keywords:
            hit, _v = env.lookup("cast")
            if not hit:
                return self.eval(n.args[1], env, ctx)     # typing.cast(T, x): T is not evaluated
        f = self.eval(n.func, env, ctx)
        args, kwargs = self.eval_args(n, env, ctx)
        # Explicit base-class call  Base.method(self, ...)
        return self.call(f, args, kwargs, n)

    def eval_args(self, n, env, ctx):
        args = []
        for a in n.args:
            if isinstance(a, ast.Starred):
                args.extend(self.iterate(self.eval(a.value, env, ctx), a))
            else:
                args.append(self.eval(a, env, ctx))
        kwargs = {}
        for k in n.keywords:
            if k.arg is None:
                d = self.eval(k.value, env, ctx)
                if not isinstance(d, dict):
                    self.unsupported("** of non-dict", n)
                kwargs.update(d)
            else:
                kwargs[k.arg] = self.eval(k.value, env, ctx)
        return args, kwargs

    def binop(self, op, a, b, node=None):
        if not isinstance(a, Abs) and not isinstance(b, Abs):
            if op == "%" and isinstance(a, str):
                vals = b if isinstance(b, tuple) else (b,)
                if any(isinstance(x, Abs) for x in vals):
                    return self.format_percent(a, vals, node)
                try:
                    return a % b
                except (TypeError, ValueError) as ex:
                    raise AbsRaise(type(ex).__name__, ex.args)
            if isinstance(a, (list, tuple)) and isinstance(b, (list, tuple)) and op == "+":
                if type(a) is not type(b):
                    raise AbsRaise("TypeError", ("concatenate %s and %s" % (type(a).__name__, type(b).__name__),))
                self.work += len(a) + len(b)
                return a + b
            if isinstance(a, list) and op == "+":
                return a + list(self.iterate(b, node))
            try:
                return _PYBIN[op](a, b)
            except ZeroDivisionError as ex:
                raise AbsRaise("ZeroDivisionError", ex.args)
            except (TypeError, ValueError, OverflowError) as ex:
                raise AbsRaise(type(ex).__name__, ex.args)
        if op == "%" and isinstance(a, str):
            vals = b if isinstance(b, tuple) else (b,)
            return self.format_percent(a, vals, node)
        if self.domain is not None:
            hit, r = self.domain.binop(self, op, a, b)
            if hit:
                return r
        if isinstance(a, (SymInt, int, Fraction)) and isinstance(b, (SymInt, int, Fraction)) and \
                not isinstance(a, bool) and not isinstance(b, bool):
            if op == "/":
                return self.domain_div(a, b, node)
            return SymInt((op, term_of(a), term_of(b)))
        if isinstance(a, (list, tuple)) and isinstance(b, (list, tuple)) and op == "+":
            return type(a)(list(a) + list(b))
        self.unsupported("binary %s on %r, %r" % (op, a, b), node)

    def domain_div(self, a, b, node):
        return SymInt(("/", term_of(a), term_of(b)))

    def format_percent(self, fmt, vals, node=None):
        if self.domain is not None:
            hit, r = self.domain.format_percent(self, fmt, vals)
            if hit:
                return r
        self.unsupported("%%-format with abstract values", node)

    def compare(self, op, a, b, node=None):
        if isinstance(op, (ast.Is, ast.IsNot)):
            if a is None or b is None or isinstance(a, bool) or isinstance(b, bool):
                r = a is b
            elif isinstance(a, Abs) or isinstance(b, Abs):
                r = a is b
                if not r:
                    # type objects: type(x) is str, cls is OtherClass
                    ta = a.name.split(".")[-1] if isinstance(a, (ExtRef, Prim)) else None
                    tb = b.name.split(".")[-1] if isinstance(b, (ExtRef, Prim)) else None
                    if ta is not None and tb is not None and ta == tb and ta in _TYPE_NAMES:
                        r = True
                    if isinstance(a, ClassRef) and isinstance(b, ClassRef):
                        r = a.qual == b.qual
            else:
                r = (a is b) or (a == b and type(a) is type(b) and isinstance(a, (int, str)))
            return r if isinstance(op, ast.Is) else not r
        if isinstance(op, (ast.In, ast.NotIn)):
            r = self.contains(b, a, node)
            if isinstance(op, ast.In):
                return r
            return SymBool(("not", r.t)) if isinstance(r, SymBool) else (not r)
        k = _CMP[type(op)]
        if not isinstance(a, Abs) and not isinstance(b, Abs):
            try:
                return _PYCMP[k](a, b)
            except TypeError as ex:
                raise AbsRaise("TypeError", ex.args)
        if self.domain is not None:
            hit, r = self.domain.compare(self, k, a, b)
            if hit:
                return r
        if isinstance(a, (SymInt, int, Fraction)) and isinstance(b, (SymInt, int, Fraction)) \
                and not isinstance(a, bool) and not isinstance(b, bool):
            return SymBool((k, term_of(a), term_of(b)))
        if k in ("==", "!=") and isinstance(a, (ExtRef, Prim)) and isinstance(b, (ExtRef, Prim)):
            same = a.name.split(".")[-1] == b.name.split(".")[-1]
            return same if k == "==" else not same
        if k in ("==", "!="):
            # identity-based equality of abstract objects / mixed kinds
            if isinstance(a, (AObj, ClassRef, Func, ModRef, ExtRef)) or isinstance(b, (AObj, ClassRef, Func, ModRef, ExtRef)):
                same = a is b
                if isinstance(a, ClassRef) and isinstance(b, ClassRef):
                    same = a.qual == b.qual
                if isinstance(a, ExtRef) and isinstance(b, ExtRef):
                    same = a.name == b.name
                if isinstance(a, Func) and isinstance(b, Func):
                    same = a.node is b.node and a.bound is b.bound
                return same if k == "==" else not same
            if a is None or b is None:
                return (a is b) if k == "==" else (a is not b)
        self.unsupported("comparison %s of %r, %r" % (k, a, b), node)

    def contains(self, container, item, node=None):
        if isinstance(item, Abs) and not isinstance(container, Abs) and self.domain is not None:
            hit, r = self.domain.contains(self, container, item)
            if hit:
                return r
        if isinstance(container, Abs):
            if self.domain is not None:
                hit, r = self.domain.contains(self, container, item)
                if hit:
                    return r
            if isinstance(container, AObj) and container.cls in self.repo.classes:
                q, f = self.repo.find_method(container.cls, "__contains__")
                if f is not None:
                    return self.truth(self.call(self.getattr(container, "__contains__"), [item]), "in")
            self.unsupported("membership in %r" % (container,), node)
        if isinstance(container, str):
            if isinstance(item, Abs):
                self.unsupported("abstract item in str", node)
            return item in container
        items = list(container.keys()) if isinstance(container, dict) else list(container)
        if isinstance(container, (list, tuple)):
            self.work += len(items)          # linear scan (hash containers answer in one probe)
        if isinstance(item, NTObj):
            if isinstance(container, (dict, set, frozenset)):
                return item in container
            return any(x is item or x == item for x in items)
        if isinstance(item, ClassRef):
            return any(x is item or (isinstance(x, ClassRef) and x.qual == item.qual) for x in items)      # a class is one object
        if isinstance(item, Abs) and not isinstance(item, (SymInt, SymBool)):
            return any(x is item for x in items)
        if isinstance(item, SymInt):
            # membership of a symbolic value among concrete ones: fork per element
            for x in items:
                if isinstance(x, Abs):
                    if isinstance(x, SymInt) and x.t == item.t:
                        return True
                    continue
                if self.ex.decide(("==", item.t, term_of(x)), "in"):
                    return True
            return False
        for x in items:
            if isinstance(x, Abs):
                continue
            try:
                if x == item:
                    return True
            except Exception:
                pass
        return False

    def subscript_value(self, c, k):
        if isinstance(c, Abs):
            if self.domain is not None:
                hit, r = self.domain.getitem(self, c, k)
                if hit:
                    return r
            self.unsupported("subscript of %r" % (c,))
        try:
            return c[k]
        except (KeyError, IndexError, TypeError) as ex:
            raise AbsRaise(type(ex).__name__, ex.args)

    def subscript(self, c, sl, env, ctx, node=None):
        if isinstance(sl, ast.Slice):
            lo = self.eval(sl.lower, env, ctx) if sl.lower is not None else None
            hi = self.eval(sl.upper, env, ctx) if sl.upper is not None else None
            stp = self.eval(sl.step, env, ctx) if sl.step is not None else None
            if isinstance(c, Abs) or any(isinstance(x, Abs) for x in (lo, hi, stp)):
                if self.domain is not None:
                    hit, r = self.domain.slice(self, c, lo, hi, stp)
                    if hit:
                        return r
                self.unsupported("slice of %r" % (c,), node)
            r_ = c[lo:hi:stp]
            self.work += len(r_) if hasattr(r_, "__len__") else 0
            return r_
        k = self.eval(sl, env, ctx)
        if isinstance(c, ExtRef):
            return ExtRef(c.name + "[]")          # typing generics: Sequence[FNode] ...
        if isinstance(c, Abs):
            if self.domain is not None:
                hit, r = self.domain.getitem(self, c, k)
                if hit:
                    return r
            self.unsupported("subscript of %r" % (c,), node)
        if isinstance(c, dict) and isinstance(k, SymInt):
            # a symbolic key among concrete ones: the entry of the key it equals (same decisions as `in`)
            for kk, vv in list(c.items()):
                if kk is k or (isinstance(kk, SymInt) and kk.t == k.t):
                    return vv
            # only equalities this path has already decided (by a preceding `in` test) are used: a lookup
            # never forks by itself (a try/except KeyError lookup treats a symbolic key as a new one)
            for kk, vv in list(c.items()):
                if isinstance(kk, Abs) or isinstance(kk, (str, tuple)) or kk is None:
                    continue
                if self.ex.known(("==", k.t, term_of(kk))) is True:
                    return vv
            raise AbsRaise("KeyError", (k,))
        if isinstance(k, Abs) and not (isinstance(c, dict) and _hashable_abs(k)):
            if self.domain is not None:
                hit, r = self.domain.getitem(self, c, k)
                if hit:
                    return r
            self.unsupported("abstract index %r" % (k,), node)
        try:
            return c[k]
        except (KeyError, IndexError, TypeError) as ex:
            raise AbsRaise(type(ex).__name__, ex.args)


def _has_abs(x):
    if isinstance(x, Abs):
        return True
    if isinstance(x, (list, tuple, set, frozenset)):
        return any(_has_abs(y) for y in x)
    return False


def _hashable_abs(k):
    return isinstance(k, (AObj, ClassRef, SymInt))


def _load(t):
    import copy
    t2 = copy.copy(t)
    t2.ctx = ast.Load()
    return t2


_GEN_CACHE = {}


def _is_generator(fn):
    r = _GEN_CACHE.get(id(fn))
    if r is None:
        r = _is_generator_uncached(fn)
        _GEN_CACHE[id(fn)] = r
    return r


def _is_generator_uncached(fn):
    if isinstance(fn, ast.Lambda):
        return False
    for n in ast.walk(fn):
        if isinstance(n, (ast.Yield, ast.YieldFrom)):
            # ignore yields of nested defs
            return _owns(fn, n)
    return False


def _owns(fn, target):
    stack = list(ast.iter_child_nodes(fn))
    while stack:
        n = stack.pop()
        if n is target:
            return True
        if isinstance(n, (ast.FunctionDef, ast.Lambda, ast.ClassDef)):
            continue
        stack.extend(ast.iter_child_nodes(n))
    return False


class _FuncCtx(object):
    __slots__ = ("module", "cls")

    def __init__(self, module, cls):
        self.module = module
        self.cls = cls


class _ModuleCtx(_FuncCtx):
    def __init__(self, module):
        _FuncCtx.__init__(self, module, None)


# ------------------------------------------------------------------------------------ builtins
def _b_len(it, a, k):
    v = a[0]
    if isinstance(v, Abs):
        from .extmodel import DequeModel
        if isinstance(v, DequeModel):
            return len(v.items)
        if it.domain is not None:
            hit, r = it.domain.len(it, v)
            if hit:
                return r
        it.unsupported("len of %r" % (v,))
    return len(v)


def _b_isinstance(it, a, k):
    v, t = a
    ts = t if isinstance(t, tuple) else (t,)
    for x in ts:
        if it.domain is not None:
            r = it.domain.isinstance(it, v, x)
            if r is not None:
                if r:
                    return True
                continue
        if isinstance(x, ClassRef):
            if isinstance(v, AObj) and v.cls in it.repo.classes and x.qual in it.repo.mro(v.cls):
                return True
            continue
        if isinstance(x, ExtRef) or isinstance(x, Prim):
            nm = x.name.split(".")[-1]
            py = {"int": int, "str": str, "bool": bool, "tuple": tuple, "list": list, "dict": dict,
                  "set": set, "frozenset": frozenset, "float": float, "Fraction": Fraction}.get(nm)
            if py is not None:
                if isinstance(v, Abs):
                    if v.pytype == nm or (nm == "int" and v.pytype == "bool"):
                        return True
                elif isinstance(v, py):
                    return True
                continue
            if nm == "slice":
                if isinstance(v, AObj) and v.cls == "builtins.slice":
                    return True
                continue
            if nm in ("CollectionsIterable", "Iterable"):
                if isinstance(v, (list, tuple, set, frozenset, dict, str, GenObj, ListIter)):
                    return True
                from .extmodel import DequeModel
                if isinstance(v, DequeModel):
                    return True
                continue
            if nm == "BaseException" or nm in BUILTIN_EXC:
                if isinstance(v, AObj) and v.tag == "exc":
                    return True
                continue
        it.unsupported("isinstance(_, %r)" % (x,))
    return False


def _b_type(it, a, k):
    v = a[0]
    if isinstance(v, AObj):
        return ClassRef(v.cls)
    if isinstance(v, Abs):
        if v.pytype:
            return ExtRef(v.pytype)
        it.unsupported("type() of %r" % (v,))
    return ExtRef(type(v).__name__)


def _mk_seq(ctor):
    def f(it, a, k):
        if not a:
            return ctor()
        return ctor(it.iterate(a[0]))
    return f


def _b_range(it, a, k):
    if any(isinstance(x, Abs) for x in a):
        it.unsupported("range over symbolic bounds")
    try:
        return range(*a)
    except (TypeError, ValueError) as ex:
        raise AbsRaise(type(ex).__name__, ex.args)


def _b_all(it, a, k):
    for x in it.iterate(a[0]):
        if not it.truth(x, "all"):
            return False
    return True


def _b_any(it, a, k):
    for x in it.iterate(a[0]):
        if it.truth(x, "any"):
            return True
    return False


def _b_zip(it, a, k):
    return list(zip(*[it.iterate(x) for x in a]))


def _b_enumerate(it, a, k):
    start = k.get("start", a[1] if len(a) > 1 else 0)
    return list(enumerate(it.iterate(a[0]), start))


def _b_sorted(it, a, k):
    items = it.iterate(a[0])
    key = k.get("key")
    if key is None:
        if any(isinstance(x, Abs) for x in items):
            it.unsupported("sorted() of abstract values without key")
        return sorted(items, reverse=bool(k.get("reverse", False)))
    keys = [it.call(key, [x]) for x in items]
    if any(isinstance(x, Abs) for x in keys):
        if it.domain is not None:
            hit, r = it.domain.sort(it, items, keys)
            if hit:
                return r
        it.unsupported("sorted() with abstract keys")
    return [x for _, x in sorted(zip(keys, items), key=lambda p: p[0])]


def _b_str(it, a, k):
    return it.to_str(a[0]) if a else ""


def _b_int(it, a, k):
    if any(isinstance(x, Abs) for x in a):
        if it.domain is not None:
            hit, r = it.domain.int(it, a)
            if hit:
                return r
        if isinstance(a[0], SymInt) and len(a) == 1:
            return a[0]
        it.unsupported("int() of %r" % (a,))
    try:
        return int(*a)
    except (ValueError, TypeError) as ex:
        raise AbsRaise(type(ex).__name__, ex.args)


def _b_abs(it, a, k):
    if isinstance(a[0], SymInt):
        return SymInt(("abs", a[0].t))
    return abs(a[0])


def _b_bool(it, a, k):
    return it.truth(a[0], "bool()") if a else False


def _b_sum(it, a, k):
    acc = a[1] if len(a) > 1 else 0
    for x in it.iterate(a[0]):
        acc = it.binop("+", acc, x)
    return acc


def _b_minmax(which):
    def f(it, a, k):
        items = list(it.iterate(a[0])) if len(a) == 1 else list(a)
        key = k.get("key")
        if not items:
            if "default" in k:
                return k["default"]
            raise AbsRaise("ValueError", ("%s() arg is an empty sequence" % which,))
        keys = [it.call(key, [x]) for x in items] if key is not None else items
        if any(isinstance(x, Abs) for x in keys):
            # compared pairwise through the interpreter's own < (symbolic values fork), first extreme element wins
            best = 0
            for i in range(1, len(items)):
                less = it.truth(it.compare(ast.Lt(), keys[i], keys[best]) if which == "min" else it.compare(ast.Gt(), keys[i], keys[best]), "min/max")
                if less:
                    best = i
            return items[best]
        pick = (min if which == "min" else max)(range(len(items)), key=lambda i: keys[i])
        # Python returns the first extreme element
        for i in range(len(items)):
            if keys[i] == keys[pick]:
                return items[i]
        return items[pick]
    return f


class ListIter(Abs):
    """iter() over a finite sequence, with position"""

    def __init__(self, items):
        self.items = list(items)
        self.pos = 0

    def next(self):
        if self.pos >= len(self.items):
            raise AbsRaise("StopIteration", ())
        self.pos += 1
        return self.items[self.pos - 1]

    def rest(self):
        r = self.items[self.pos:]
        self.pos = len(self.items)
        return r


def _b_next(it, a, k):
    v = a[0]
    if isinstance(v, (GenObj, ListIter, CallIter)):
        try:
            return v.next()
        except AbsRaise as ex:
            if ex.cls_name == "StopIteration" and len(a) > 1:
                return a[1]
            raise
    if it.domain is not None:
        hit, r = it.domain.call(it, ExtRef("builtins.next"), a, k)
        if hit:
            return r
    items = it.iterate(v)
    if not items:
        if len(a) > 1:
            return a[1]
        raise AbsRaise("StopIteration", ())
    return items[0]


class CallIter(Abs):
    """iter(callable, sentinel): calls the callable at every step, stops when it returns the sentinel (lazy)."""

    def __init__(self, it, fn, sentinel):
        self.it, self.fn, self.sentinel = it, fn, sentinel
        self.done = False

    def next(self):
        if self.done:
            raise AbsRaise("StopIteration", ())
        v = self.it.call(self.fn, [])
        if (not isinstance(v, Abs) or not isinstance(self.sentinel, Abs)) and type(v) is type(self.sentinel) and v == self.sentinel:
            self.done = True
            raise AbsRaise("StopIteration", ())
        if v is self.sentinel:
            self.done = True
            raise AbsRaise("StopIteration", ())
        return v

    def lazy(self):
        while True:
            try:
                yield self.next()
            except AbsRaise as ex:
                if ex.cls_name == "StopIteration":
                    return
                raise


def _b_iter(it, a, k):
    v = a[0]
    if len(a) == 2:
        return CallIter(it, a[0], a[1])
    if isinstance(v, (GenObj, ListIter, CallIter)):
        return v
    return ListIter(it.iterate(v))


def _b_id(it, a, k):
    v = a[0]
    if it.domain is not None:
        hit, r = it.domain.id(it, v)
        if hit:
            return r
    it.unsupported("id()")


def _b_hash(it, a, k):
    # only ever stored as a cached __hash__ value; dictionaries of the analyser hash abstract
    # objects by identity, so the number itself is immaterial
    v = a[0]
    if _has_abs(v):
        return 0
    try:
        return hash(v)
    except TypeError as ex:
        raise AbsRaise("TypeError", ex.args)


def _b_getattr(it, a, k):
    try:
        return it.getattr(a[0], a[1])
    except AbsRaise as ex:
        if ex.cls_name == "AttributeError" and len(a) > 2:
            return a[2]
        raise


def _b_hasattr(it, a, k):
    try:
        it.getattr(a[0], a[1])
        return True
    except AbsRaise as ex:
        if ex.cls_name == "AttributeError":
            return False
        raise


def _b_setattr(it, a, k):
    o, n, v = a
    if isinstance(o, AObj):
        o.attrs[n] = v
        return None
    it.unsupported("setattr on %r" % (o,))


def _b_callable(it, a, k):
    return isinstance(a[0], (Func, Prim, ClassRef, Partial)) or (callable(a[0]) and not isinstance(a[0], Abs))


def _b_print(it, a, k):
    return None


def _b_bin(it, a, k):
    if isinstance(a[0], Abs):
        if it.domain is not None:
            hit, r = it.domain.py_method(it, "bin", "bin", a, k)
            if hit:
                return r
        it.unsupported("bin() of abstract")
    return bin(a[0])


def _b_reversed(it, a, k):
    return list(reversed(it.iterate(a[0])))


def _b_map(it, a, k):
    return [it.call(a[0], [x]) for x in it.iterate(a[1])]


def _b_filter(it, a, k):
    return [x for x in it.iterate(a[1]) if it.truth(it.call(a[0], [x]) if a[0] is not None else x, "filter")]


def _b_dict(it, a, k):
    d = {}
    if a:
        src = a[0]
        if isinstance(src, dict):
            d.update(src)
        else:
            for kv in it.iterate(src):
                kk, vv = it.iterate(kv)
                d[kk] = vv
    d.update(k)
    return d


def _b_repr(it, a, k):
    v = a[0]
    if isinstance(v, AObj) and v.cls in it.repo.classes:
        q, f = it.repo.find_method(v.cls, "__repr__")
        if f is not None:
            return it.call(it.getattr(v, "__repr__"), [])
    if isinstance(v, Abs) or _has_abs(v):
        it.unsupported("repr() of an abstract value")
    return repr(v)


def _b_round(it, a, k):
    if any(isinstance(x, Abs) for x in a):
        it.unsupported("round() of an abstract value")
    return round(*a)


def _b_divmod(it, a, k):
    if any(isinstance(x, Abs) for x in a):
        it.unsupported("divmod() of abstract values")
    try:
        return divmod(*a)
    except ZeroDivisionError as ex:
        raise AbsRaise("ZeroDivisionError", ex.args)


def _b_concrete(name, fn, errors=(TypeError, ValueError, OverflowError)):
    """A pure built-in on concrete arguments (ord, chr, hex, oct, ascii, pow): computed by Python itself."""
    def run(it, a, k):
        if any(isinstance(x, Abs) or _has_abs(x) for x in a) or k:
            it.unsupported("%s() of an abstract value" % name)
        try:
            return fn(*a)
        except errors as ex:
            raise AbsRaise(type(ex).__name__, ex.args)
    return Prim(run, name)


_BUILTINS = {
    "ord": _b_concrete("ord", ord), "chr": _b_concrete("chr", chr), "hex": _b_concrete("hex", hex), "oct": _b_concrete("oct", oct),
    "ascii": _b_concrete("ascii", ascii), "pow": _b_concrete("pow", pow, (TypeError, ValueError, OverflowError, ZeroDivisionError)),
    "repr": Prim(_b_repr, "repr"), "round": Prim(_b_round, "round"), "divmod": Prim(_b_divmod, "divmod"),
    "len": Prim(_b_len, "len"), "isinstance": Prim(_b_isinstance, "isinstance"), "type": Prim(_b_type, "type"),
    "tuple": Prim(_mk_seq(tuple), "tuple"), "list": Prim(_mk_seq(list), "list"), "set": Prim(_mk_seq(set), "set"),
    "frozenset": Prim(_mk_seq(frozenset), "frozenset"), "range": Prim(_b_range, "range"), "all": Prim(_b_all, "all"),
    "any": Prim(_b_any, "any"), "zip": Prim(_b_zip, "zip"), "enumerate": Prim(_b_enumerate, "enumerate"),
    "sorted": Prim(_b_sorted, "sorted"), "str": Prim(_b_str, "str"), "int": Prim(_b_int, "int"),
    "abs": Prim(_b_abs, "abs"), "bool": Prim(_b_bool, "bool"), "sum": Prim(_b_sum, "sum"),
    "min": Prim(_b_minmax("min"), "min"), "max": Prim(_b_minmax("max"), "max"), "next": Prim(_b_next, "next"),
    "iter": Prim(_b_iter, "iter"), "id": Prim(_b_id, "id"), "hash": Prim(_b_hash, "hash"),
    "getattr": Prim(_b_getattr, "getattr"), "hasattr": Prim(_b_hasattr, "hasattr"),
    "setattr": Prim(_b_setattr, "setattr"), "callable": Prim(_b_callable, "callable"),
    "print": Prim(_b_print, "print"), "bin": Prim(_b_bin, "bin"), "reversed": Prim(_b_reversed, "reversed"),
    "map": Prim(_b_map, "map"), "filter": Prim(_b_filter, "filter"), "dict": Prim(_b_dict, "dict"),
    "float": ExtRef("float"), "slice": ExtRef("slice"), "object": ExtRef("object"), "super": ExtRef("super"), "property": ExtRef("property"),
    "NotImplemented": ExtRef("NotImplemented"), "__debug__": True,
}


# ------------------------------------------------------------------------------------ domain hooks
class Domain(object):
    """Rule-specific semantics.  Every hook returns (hit, value) unless noted."""

    def truth(self, it, v, where):
        return None

    def global_override(self, it, module, name):
        return False, None

    def call(self, it, f, args, kwargs):
        return False, None

    def instantiate(self, it, cref, args, kwargs):
        return False, None

    def getattr(self, it, obj, name):
        return False, None

    def setattr(self, it, obj, name, v):
        return False

    def setitem(self, it, c, k, v):
        return False

    def getitem(self, it, c, k):
        return False, None

    def slice(self, it, c, lo, hi, step):
        return False, None

    def iterate(self, it, v):
        return False, None

    def binop(self, it, op, a, b):
        return False, None

    def unop(self, it, op, v):
        return False, None

    def compare(self, it, op, a, b):
        return False, None

    def contains(self, it, container, item):
        return False, None

    def len(self, it, v):
        return False, None

    def isinstance(self, it, v, t):
        return None

    def py_method(self, it, obj, name, args, kwargs):
        return False, None

    def to_str(self, it, x):
        return False, None

    def concat_str(self, it, parts):
        return False, None

    def format_percent(self, it, fmt, vals):
        return False, None

    def sort(self, it, items, keys):
        return False, None

    def int(self, it, args):
        return False, None

    def id(self, it, v):
        return False, None
