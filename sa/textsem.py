"""Bridge between abstract pySMT terms (World nodes) and the reference reader's terms (refsmt):
conversion, structural comparison with the normalisations the properties allow, and comparison by
exhaustive evaluation over small domains."""
from fractions import Fraction
import itertools

from . import refsem, refsmt
from .refsmt import T
from .absint import Abs


class NotConcrete(Exception):
    pass


def from_node(w, n, memo=None):
    """World node -> reference term.  Payloads must be concrete."""
    memo = {} if memo is None else memo
    k = id(n)
    if k in memo:
        return memo[k]
    op = w.opname(n)
    p = w.npayload(n)
    args = tuple(from_node(w, a, memo) for a in w.nargs(n))

    def conc(x):
        if isinstance(x, Abs):
            raise NotConcrete("symbolic payload %r" % (x,))
        return x

    def sort(tyobj):
        s = w.sort_of_tyobj(tyobj)
        _chk_sort(s)
        return s
    if op == "SYMBOL":
        r = T(op, (), (conc(p[0]), sort(p[1])))
    elif op in ("BOOL_CONSTANT", "STR_CONSTANT"):
        r = T(op, (), conc(p))
    elif op == "INT_CONSTANT":
        v = conc(p)
        r = T(op, (), int(v))
    elif op == "REAL_CONSTANT":
        r = T(op, (), Fraction(conc(p)))
    elif op == "BV_CONSTANT":
        r = T(op, (), (conc(p[0]), conc(p[1])))
    elif op == "FUNCTION":
        fs = p
        fp = w.npayload(fs)
        r = T(op, args, (conc(fp[0]), sort(fp[1])))
    elif op in ("FORALL", "EXISTS"):
        vs = tuple((conc(w.npayload(v)[0]), sort(w.npayload(v)[1])) for v in p)
        r = T(op, args, vs)
    elif op == "BV_EXTRACT":
        r = T(op, args, (conc(p[1]), conc(p[2])))
    elif op in ("BV_ROL", "BV_ROR", "BV_ZEXT"):
        r = T(op, args, (conc(p[1]),))
    elif op == "BV_SEXT":
        r = T(op, args, (refsmt.sort_of(args[0])[1], conc(p[1])))
    elif op == "BV_CONCAT":
        r = T(op, args, (refsmt.sort_of(args[1])[1],))
    elif op == "ARRAY_VALUE":
        base = T("ARRAY_VALUE", (args[0],), sort(p))
        r = base
        rest = args[1:]
        for i in range(0, len(rest), 2):
            r = T("ARRAY_STORE", (r, rest[i], rest[i + 1]))
    elif op == "ALGEBRAIC_CONSTANT":
        raise NotConcrete("algebraic constant")
    else:
        r = T(op, args, None)
    memo[k] = r
    return r


def _chk_sort(s):
    if s[0] == "BV" and isinstance(s[1], Abs):
        raise NotConcrete("symbolic width")
    if s[0] == "ARRAY":
        _chk_sort(s[1])
        _chk_sort(s[2])
    if s[0] == "FUN":
        _chk_sort(s[1])
        for x in s[2]:
            _chk_sort(x)


# ------------------------------------------------------------------------------------ structural equality
def _array_norm(t):
    """store chain over distinct constant indices -> (base, frozenset of (index, value))"""
    pairs = []
    cur = t
    while cur[0] == "ARRAY_STORE":
        pairs.append((cur[1][1], cur[1][2]))
        cur = cur[1][0]
    keys = [k for k, _ in pairs]
    if pairs and all(k[0].endswith("_CONSTANT") for k in keys) and len(set(keys)) == len(keys):
        return ("ARRAY_LIT", cur, frozenset(pairs))
    return None


def rt_equal(a, b):
    if a == b:
        return True
    if a[0] != b[0]:
        return False
    if a[0] == "ARRAY_STORE":
        na, nb = _array_norm(a), _array_norm(b)
        if na is not None and nb is not None:
            if not rt_equal(na[1], nb[1]) or len(na[2]) != len(nb[2]):
                return False
            mb = dict(nb[2])
            return all(k in mb and rt_equal(v, mb[k]) for k, v in na[2])
    if a[2] != b[2] or len(a[1]) != len(b[1]):
        return False
    return all(rt_equal(x, y) for x, y in zip(a[1], b[1]))


# ------------------------------------------------------------------------------------ evaluation
def _fun_tables(name, sort, small):
    pd = [refsem.domain(x, small=True) for x in sort[2]]
    rd = refsem.domain(sort[1], small=True)
    keys = list(itertools.product(*pd))
    if len(rd) ** len(keys) > 200:
        rd = rd[:2]
    if len(rd) ** len(keys) > 200:
        raise refsem.NoSemantics("function space of %s too large" % name)
    return [dict(zip(keys, vals)) for vals in itertools.product(rd, repeat=len(keys))]


def ground_values(t, out):
    """Values of the ground sub-terms of t, by sort: the values a symbol has to be able to take for a comparison
    with such a sub-term to discriminate."""
    op, args, p = t
    if op in ("FORALL", "EXISTS"):
        return False
    ground = op not in ("SYMBOL", "FUNCTION")
    for a in args:
        ground = ground_values(a, out) and ground
    if ground:
        try:
            v = refsmt.evaluate(t, {})
            so = refsmt.sort_of(t)
            if so[0] in ("INT", "REAL", "STRING", "BV"):
                out.setdefault(so, []).append(v)
                if so[0] == "INT":
                    out.setdefault(("REAL",), []).append(Fraction(v))
        except Exception:
            pass
    return ground


def assignments(symbols, budget=20000, extra=None):
    """symbols: name -> sort (functions have FUN sorts).  Small domains (plus the `extra` values of the sort, the
    ground values occurring in the compared terms), pruned to the budget."""
    names, doms = [], []
    nsym = len(symbols)
    for nm, so in sorted(symbols.items()):
        if so[0] == "FUN":
            names.append("fun:" + nm)
            doms.append(_fun_tables(nm, so, True))
        else:
            names.append("sym:" + nm)
            d = list(refsem.domain(so, small=nsym > 3))
            for v in (extra or {}).get(so, [])[:8]:
                if v not in d:
                    d.append(v)
            doms.append(d)
    total = 1
    for d in doms:
        total *= len(d)
    while total > budget:
        i = max(range(len(doms)), key=lambda j: len(doms[j]))
        if len(doms[i]) <= 2:
            break
        total = total // len(doms[i])
        doms[i] = doms[i][:max(2, len(doms[i]) // 2)]
        total *= len(doms[i])
    for combo in itertools.product(*doms):
        yield dict(zip(names, combo))


def equivalent(a, b):
    """(True, n_assignments) | (False, counterexample) | (None, reason)"""
    if rt_equal(a, b):
        return True, "structurally equal"
    syms = {}
    refsmt.symbols_of(a, syms)
    refsmt.symbols_of(b, syms)
    n = 0
    extra = {}
    ground_values(a, extra)
    ground_values(b, extra)
    try:
        for asg in assignments(syms, extra=extra):
            try:
                va = refsmt.evaluate(a, asg)
            except refsem.Undefined:
                continue
            try:
                vb = refsmt.evaluate(b, asg)
            except refsem.Undefined:
                continue
            if va != vb:
                return False, "under %s one side denotes %r, the other %r" % (_show(asg), va, vb)
            n += 1
    except refsem.NoSemantics as e:
        return None, "no evaluation semantics (%s) and not structurally equal" % e
    if n == 0:
        return None, "no assignment evaluated"
    return True, "%d assignments" % n


def _show(asg):
    return "{%s}" % ", ".join("%s=%r" % (k.split(":", 1)[1], v) for k, v in sorted(asg.items()) if not k.startswith("fun:"))
