"""Abstract model of the pySMT run-time world for the interpreter: environment, formula manager,
hash-consed abstract FNodes, type objects.  Everything that *is* source under analysis (FNode
methods, FormulaManager constructors, typing classes, walkers' handlers) is interpreted from
/repo's ast; only the plumbing that would need a real Python run time is modelled:

  FormulaManager.create_node  -> interning of abstract nodes (no dict of real objects)
  Environment / get_env()      -> one model environment
  env.stc.get_type             -> sort of an abstract node (computed structurally)
  env.fvo.get_free_variables   -> structural free symbols
  pysmt.constants predicates   -> decided on the abstract value's Python type (gmpy2 absent)
"""
import ast
from fractions import Fraction

from .absint import (Domain, AObj, SymInt, SymBool, Prim, ClassRef, ExtRef, ModRef, Func, Unknown,
                     Unsupported, AbsRaise, Abs, term_of, eval_term, Interp, Explorer)
from .loader import get_repo
from .opsets import get_ops
from . import refsem

FNODE = "pysmt.fnode.FNode"
FM = "pysmt.formula.FormulaManager"
ENV = "pysmt.environment.Environment"
STC = "pysmt.type_checker.SimpleTypeChecker"
WALKER = "pysmt.walkers.generic.Walker"


class SymStr(Abs):
    """Opaque string built from abstract parts (names, messages)."""
    pytype = "str"

    def __init__(self, parts):
        self.parts = parts

    def __repr__(self):
        return "SymStr(%r)" % (self.parts,)


class SymBits(Abs):
    """A binary string of known length whose characters are symbolic bits (MSB first), as produced by
    '{0:0Nb}'.format(v) for a symbolic value v.  `prefix` is a literal prefix such as '#b'."""
    pytype = "str"

    def __init__(self, bits, prefix=""):
        self.bits = list(bits)      # terms, each denoting 0 or 1
        self.prefix = prefix

    def __repr__(self):
        return "SymBits(%s%d bits)" % (self.prefix, len(self.bits))


_SERVICES = {"_simplifier": "pysmt.simplifier.Simplifier", "_substituter": "pysmt.substituter.MGSubstituter",
             "_qfo": "pysmt.oracles.QuantifierOracle", "_theoryo": "pysmt.oracles.TheoryOracle",
             "_sizeo": "pysmt.oracles.SizeOracle", "_ao": "pysmt.oracles.AtomsOracle",
             "_typeso": "pysmt.oracles.TypesOracle", "_serializer": "pysmt.printers.HRSerializer"}


class World(Domain):
    def __init__(self, repo=None):
        self.repo = repo or get_repo()
        self.ops = get_ops()
        self.intern = {}
        self.next_id = 1
        self.created = []          # every create_node call, in order
        self.lazy_services = False
        self._in_node_str = False
        self.typecheck = False     # run the interpreted type checker on every constructed node
        self.real_manager = False  # True: FormulaManager (create_node, tables, type check) is interpreted from source
        self._real_stc = None
        self._typed = set()
        self.kinds = {}            # symbolic variable -> 'int' | 'real' | 'bv' | 'width' | 'idx'
        self.varwidth = {}         # bit-vector valued variable -> its width (int or SymInt)
        self.it = None
        self.env = None
        self.mgr = None
        self.fresh = 0
        self.allow_fresh = True

    # ------------------------------------------------------------------ set-up
    def attach(self, it):
        self.it = it
        it.domain = self
        self.mgr = AObj(FM, {"symbols": {}, "_fresh_guess": 0, "get_type": None, "_next_free_id": 1,
                             "int_constants": {}, "real_constants": {}, "string_constants": {},
                             "formulae": {}, "_normalizer": None})
        stc = AObj(STC, {"be_nice": False, "memoization": {}}, tag="stc-model")
        self.env = AObj(ENV, {"_formula_manager": self.mgr, "_stc": stc, "enable_infix_notation": True,
                              "enable_div_by_0": True, "allow_empty_var_names": False, "dwf": {},
                              "_fvo": AObj("pysmt.oracles.FreeVarsOracle", {}, tag="fvo-model"),
                              "_factory": None})
        self.mgr.attrs["env"] = self.env
        self.mgr.attrs["true_formula"] = self.mk_node(self.ops.id("BOOL_CONSTANT"), (), True)
        self.mgr.attrs["false_formula"] = self.mk_node(self.ops.id("BOOL_CONSTANT"), (), False)
        tm_cls = "pysmt.typing.TypeManager"
        self.env.attrs["_type_manager"] = it.instantiate(ClassRef(tm_cls), [self.env], {})
        return self

    def var(self, name, kind="int"):
        self.kinds[name] = kind
        return SymInt(("var", name))

    # ------------------------------------------------------------------ nodes
    def _pkey(self, p):
        if isinstance(p, SymInt):
            return ("sym", p.t)
        if isinstance(p, AObj):
            return ("obj", id(p))
        if isinstance(p, (tuple, list)):
            return tuple(self._pkey(x) for x in p)
        if isinstance(p, Abs):
            return ("abs", id(p))
        return ("py", type(p).__name__, p)

    def mk_node(self, node_type, args, payload):
        args = tuple(args)
        key = (node_type, tuple(id(a) for a in args), self._pkey(payload))
        n = self.intern.get(key)
        if n is None:
            content = AObj("collections.FNodeContent", {"node_type": node_type, "args": args, "payload": payload})
            n = AObj(FNODE, {"_content": content, "_node_id": self.next_id})
            self.next_id += 1
            self.intern[key] = n
        self.created.append(n)
        return n

    @staticmethod
    def is_node(v):
        return isinstance(v, AObj) and v.cls == FNODE

    @staticmethod
    def ntype(n):
        return n.attrs["_content"].attrs["node_type"]

    @staticmethod
    def nargs(n):
        return n.attrs["_content"].attrs["args"]

    @staticmethod
    def npayload(n):
        return n.attrs["_content"].attrs["payload"]

    def opname(self, n):
        return self.ops.name(self.ntype(n))

    # leaves ------------------------------------------------------------
    def tyobj(self, sort):
        """typing object (interpreted from pysmt/typing.py) for a refsem sort"""
        it = self.it
        tm = self.repo.modules["pysmt.typing"]
        k = sort[0]
        if k in ("BOOL", "INT", "REAL", "STRING"):
            return it.module_global(tm, k)
        if k == "BV":
            return it.call(it.getattr(self.env.attrs["_type_manager"], "BVType"), [sort[1]])
        if k == "ARRAY":
            return it.call(it.getattr(self.env.attrs["_type_manager"], "ArrayType"),
                           [self.tyobj(sort[1]), self.tyobj(sort[2])])
        if k == "FUN":
            return it.call(it.getattr(self.env.attrs["_type_manager"], "FunctionType"),
                           [self.tyobj(sort[1]), [self.tyobj(s) for s in sort[2]]])
        if k == "CUSTOM":
            if len(sort) > 2 and sort[2]:
                decl = it.call(it.getattr(self.env.attrs["_type_manager"], "Type"), [sort[1], len(sort[2])])
                return it.call(decl, [self.tyobj(s) for s in sort[2]])
            return it.call(it.getattr(self.env.attrs["_type_manager"], "Type"), [sort[1], 0])
        raise Unsupported("tyobj %s" % (sort,))

    def sort_of_tyobj(self, t):
        if not isinstance(t, AObj):
            raise Unsupported("not a type object: %r" % (t,))
        c = t.cls.split(".")[-1]
        if c == "_BoolType":
            return refsem.BOOL
        if c == "_IntType":
            return refsem.INT
        if c == "_RealType":
            return refsem.REAL
        if c == "_StringType":
            return refsem.STRING
        if c == "_BVType":
            return ("BV", t.attrs["_width"])
        if c == "_ArrayType":
            a = t.attrs["args"]
            return ("ARRAY", self.sort_of_tyobj(a[0]), self.sort_of_tyobj(a[1]))
        if c == "_FunctionType":
            return ("FUN", self.sort_of_tyobj(t.attrs["_return_type"]),
                    tuple(self.sort_of_tyobj(p) for p in t.attrs["_param_types"]))
        if c == "PySMTType":
            if t.attrs.get("args"):
                return ("CUSTOM", t.attrs.get("basename"), tuple(self.sort_of_tyobj(a) for a in t.attrs["args"]))
            return ("CUSTOM", t.attrs.get("basename"))
        raise Unsupported("sort of %r" % (t,))

    def symbol(self, name, sort):
        n = self.mk_node(self.ops.id("SYMBOL"), (), (name, self.tyobj(sort)))
        if isinstance(name, str):
            self.mgr.attrs["symbols"].setdefault(name, n)     # as FormulaManager._create_symbol does
        return n

    def bool_const(self, v):
        return self.mgr.attrs["true_formula" if v else "false_formula"]

    def int_const(self, v):
        return self.mk_node(self.ops.id("INT_CONSTANT"), (), v)

    def real_const(self, v):
        return self.mk_node(self.ops.id("REAL_CONSTANT"), (), v)

    def bv_const(self, v, w):
        if isinstance(v, SymInt) and v.t[0] == "var":
            self.varwidth[v.t[1]] = w
        return self.mk_node(self.ops.id("BV_CONSTANT"), (), (v, w))

    def str_const(self, v):
        return self.mk_node(self.ops.id("STR_CONSTANT"), (), v)

    def app(self, ctor, *args, **kwargs):
        """Build a node through the real constructor (interpreted from formula.py)."""
        return self.it.call(self.it.getattr(self.mgr, ctor), list(args), kwargs)

    # sorts of nodes ------------------------------------------------------
    def nsort(self, n):
        op = self.opname(n)
        args = self.nargs(n)
        p = self.npayload(n)
        if op == "SYMBOL":
            return self.sort_of_tyobj(p[1])
        if op == "BOOL_CONSTANT":
            return refsem.BOOL
        if op == "INT_CONSTANT":
            return refsem.INT
        if op in ("REAL_CONSTANT", "ALGEBRAIC_CONSTANT"):
            return refsem.REAL
        if op == "STR_CONSTANT":
            return refsem.STRING
        if op == "BV_CONSTANT":
            return ("BV", p[1])
        if op == "FUNCTION":
            return self.nsort(p)[1]
        if op == "ARRAY_VALUE":
            return ("ARRAY", self.sort_of_tyobj(p), self.nsort(args[0]))
        if op in refsem.BOOL_RESULT:
            return refsem.BOOL
        if op in refsem.INT_RESULT:
            return refsem.INT
        if op in refsem.STR_RESULT:
            return refsem.STRING
        if op == "TOREAL":
            return refsem.REAL
        if op in ("PLUS", "MINUS", "TIMES", "DIV"):
            return self.nsort(args[0])
        if op == "POW":
            return refsem.REAL
        if op == "ITE":
            return self.nsort(args[1])
        if op == "ARRAY_SELECT":
            return self.nsort(args[0])[2]
        if op == "ARRAY_STORE":
            return self.nsort(args[0])
        if op.startswith("BV_"):
            if isinstance(p, tuple) and p:
                return ("BV", p[0])
            raise Unsupported("BV node %s without width payload" % op)
        raise Unsupported("sort of %s" % op)

    def free_symbols(self, n, bound=frozenset()):
        op = self.opname(n)
        if op == "SYMBOL":
            return frozenset() if n in bound else frozenset([n])
        out = set()
        if op == "FUNCTION":
            out.add(self.npayload(n))
        b2 = bound
        if op in ("FORALL", "EXISTS"):
            b2 = bound | frozenset(self.npayload(n))
        for a in self.nargs(n):
            out |= self.free_symbols(a, b2)
        return frozenset(out)

    # ------------------------------------------------------------------ Domain hooks
    def global_override(self, it, module, name):
        mn = module.name
        if mn == "pysmt.environment" and name == "get_env":
            return True, Prim(lambda i, a, k: self.env, "get_env")
        if mn == "pysmt.environment" and name == "ENVIRONMENTS_STACK":
            return True, [self.env]
        if name in ("get_env", "get_type", "get_free_variables"):
            r = self.repo.resolve(module, name)
            if r and r[0] == "func" and r[1].name == "pysmt.environment" and r[2].name == "get_env":
                return True, Prim(lambda i, a, k: self.env, "get_env")
        if mn == "pysmt.fnode" and name == "_env":
            return True, Prim(lambda i, a, k: self.env, "_env")
        if mn == "pysmt.fnode" and name == "_mgr":
            return True, Prim(lambda i, a, k: self.mgr, "_mgr")
        if mn == "pysmt.constants":
            return self._constants(name)
        if name in _CONST_PRED and self.repo.resolve(module, name) and \
                self.repo.resolve(module, name)[0] == "func" and self.repo.resolve(module, name)[1].name == "pysmt.constants":
            return self._constants(name)
        if name == "warnings":
            return True, ExtRef("warnings")
        return False, None

    def _constants(self, name):
        if name in _CONST_PRED:
            model = _CONST_PRED[name]
            real = self.repo.functions.get("pysmt.constants." + name)
            if real is None:
                return True, Prim(model, name)
            fn = Func(real[1], real[0])

            def hybrid(it, a, k, model=model, fn=fn):
                # concrete Python values: the real function of pysmt/constants.py is interpreted (gmpy2 and z3
                # absent, as in the pinned environment); symbolic values: the sort-kind model
                if any(isinstance(x, Abs) for x in a) or k:
                    return model(it, a, k)
                return it.call_func(fn, list(a), {})
            return True, Prim(hybrid, name)
        table = {"HAS_GMPY": False, "USE_GMPY": False, "mpz_type": None, "mpq_type": None,
                 "Fraction": ExtRef("fractions.Fraction"), "pyFraction": ExtRef("fractions.Fraction"),
                 "FractionClass": ExtRef("Fraction"), "IntegerClass": ExtRef("int"), "USE_Z3": False,
                 "Integer": ExtRef("int")}
        if name in table:
            return True, table[name]
        return False, None

    def getattr(self, it, obj, name):
        if isinstance(obj, AObj) and name.startswith("walk_") and name not in obj.attrs and \
                obj.cls in self.repo.classes and WALKER in self.repo.mro(obj.cls):
            # handler resolution as MetaNodeTypeHandler + getattr do it at run time
            from .handlers import get_tables
            ht = get_tables()
            for q in self.repo.mro(obj.cls):
                ns = ht.class_ns(q)
                if name in ns and ns[name].func is not None:
                    h = ns[name]
                    return True, self.wrap_handler(it, Func(h.func, self.repo.classes[h.cls].module, h.cls, bound=obj), h)
                ci = self.repo.classes[q]
                if name in ci.attrs:
                    break
        if isinstance(obj, AObj):
            if obj.cls == FM and name == "create_node" and not self.real_manager:
                return True, Prim(self._create_node, "create_node")
            if obj.cls == FM and name in ("_do_type_check", "_do_type_check_real") and not self.real_manager:
                return True, Prim(lambda i, a, k: None, name)
            if obj.tag == "stc-model" and name in ("get_type", "walk"):
                return True, Prim(lambda i, a, k: self.tyobj(self.nsort(a[0])), "stc." + name)
            if obj.tag == "fvo-model" and name in ("get_free_variables", "walk"):
                return True, Prim(lambda i, a, k: self.free_symbols(a[0]), "fvo." + name)
            if obj.cls == ENV and name == "fvo":
                if self.lazy_services and getattr(obj.attrs["_fvo"], "tag", None) == "fvo-model":
                    # with full services the free-variables oracle is the real class, interpreted, like the others
                    obj.attrs["_fvo"] = self.new_walker("pysmt.oracles.FreeVarsOracle", obj)
                return True, obj.attrs["_fvo"]
            if obj.cls == ENV and self.lazy_services and name in _SERVICES and name not in obj.attrs:
                # environment services are instantiated (interpreted from the real classes) on first use
                obj.attrs[name] = self.new_walker(_SERVICES[name], obj)
                return True, obj.attrs[name]
            if obj.cls == "collections.FNodeContent" and name not in obj.attrs:
                raise AbsRaise("AttributeError", (name,))
        if isinstance(obj, ExtRef):
            if obj.name == "warnings" and name == "warn":
                return True, Prim(lambda i, a, k: None, "warn")
            if obj.name == "math":
                return True, Prim(lambda i, a, k, n=name: self._math(n, a), "math." + name)
        if isinstance(obj, SymInt):
            if name in ("numerator",):
                return True, obj
            if name == "denominator":
                if self.kinds.get(obj.t[1] if obj.t[0] == "var" else None) == "real":
                    raise Unsupported("denominator of symbolic rational")
                return True, 1
        if isinstance(obj, SymBits):
            if name == "startswith":
                return True, Prim(lambda i, a, k, o=obj: isinstance(a[0], str) and o.prefix.startswith(a[0]) if o.prefix or a[0] == ""
                                  else (a[0] == ""), "SymBits.startswith")
            raise Unsupported("method %s of a symbolic bit string" % name)
        if isinstance(obj, SymStr) or (isinstance(obj, str) and False):
            raise Unsupported("method %s of symbolic string" % name)
        return False, None

    def wrap_handler(self, it, fn, h):
        return fn

    def new_walker(self, qual, *args, **kwargs):
        """Instantiate a walker class by interpreting its __init__ chain."""
        return self.it.instantiate(ClassRef(qual), list(args), kwargs)

    def _math(self, name, args):
        raise Unsupported("math.%s" % name)

    def _create_node(self, it, args, kwargs):
        names = ["node_type", "args", "payload"]
        vals = dict(zip(names, args))
        vals.update(kwargs)
        n = self.mk_node(vals["node_type"], tuple(it.iterate(vals["args"])), vals.get("payload"))
        if self.typecheck and id(n) not in self._typed:
            # construction-time type check by the real SimpleTypeChecker, interpreted
            if self._real_stc is None:
                self._real_stc = self.new_walker(STC, self.env)
            t = it.call(it.getattr(self._real_stc, "get_type"), [n])
            self._typed.add(id(n))
        return n

    def call(self, it, f, args, kwargs):
        if isinstance(f, ExtRef):
            n = f.name.split(".")[-1]
            if n == "float":
                # a concrete number has one nearest double; symbolic values have no float model
                if len(args) == 1 and isinstance(args[0], (int, Fraction, str, float)) and not isinstance(args[0], bool):
                    try:
                        return True, float(args[0])
                    except (ValueError, OverflowError) as ex:
                        raise AbsRaise(type(ex).__name__, ex.args)
                raise Unsupported("float()")
            if n == "Fraction":
                if len(args) == 1 and isinstance(args[0], SymInt):
                    return True, args[0]
                if len(args) == 2 and (isinstance(args[0], SymInt) or isinstance(args[1], SymInt)):
                    return True, SymInt(("/", term_of(args[0]), term_of(args[1])))
            if n == "int" and len(args) == 1:
                return True, it.call(it.builtin("int"), args, kwargs)
        return False, None

    def isinstance(self, it, v, t):
        if isinstance(v, SymBits) and isinstance(t, (ExtRef, Prim)) and t.name.split(".")[-1] == "str":
            return True
        if isinstance(t, ClassRef) and t.qual == FNODE:
            return self.is_node(v)
        if isinstance(t, ClassRef) and t.qual.startswith("pysmt.typing."):
            if isinstance(v, AObj) and v.cls in self.repo.classes:
                return t.qual in self.repo.mro(v.cls)
            return False
        return None

    def compare(self, it, op, a, b):
        # structural short-cuts on symbolic integers
        if isinstance(a, SymInt) and isinstance(b, SymInt) and a.t == b.t:
            return True, op in ("==", "<=", ">=")
        if op in ("<", "<=", ">", ">=") and isinstance(a, AObj):
            hit, r = self._dunder(it, a, {"<": "__lt__", "<=": "__le__", ">": "__gt__", ">=": "__ge__"}[op], [b])
            if hit:
                return hit, r
        if op in ("==", "!=") and (isinstance(a, SymStr) or isinstance(b, SymStr)) and \
                (isinstance(a, (str, SymStr)) and isinstance(b, (str, SymStr))):
            r = self._symstr_eq(a, b)
            if r is not None:
                if isinstance(r, tuple):
                    return True, SymBool(r if op == "==" else ("not", r))
                return True, (r if op == "==" else not r)
        if op in ("==", "!=") and self.is_node(a) and self.is_node(b):
            c = self.node_eq(a, b)
            if isinstance(c, tuple):
                return True, SymBool(c if op == "==" else ("not", c))
            return True, (c if op == "==" else not c)
        if op in ("==", "!=") and (isinstance(a, AObj) or isinstance(b, AObj)):
            o = a if isinstance(a, AObj) else b
            other = b if o is a else a
            if o.cls in self.repo.classes:
                q, f = self.repo.find_method(o.cls, "__eq__")
                if f is not None:
                    r = it.call_func(Func(f, self.repo.classes[q].module, q, bound=o), [other], {})
                    if op == "!=":
                        if isinstance(r, SymBool):
                            return True, SymBool(("not", r.t))
                        return True, not it.truth(r, "ne")
                    return True, r
        return False, None

    @staticmethod
    def _symstr_eq(a, b):
        """Equality of a formatted name ("BV{%d}" % w) with a literal or another formatted name."""
        def fmt(x):
            if isinstance(x, SymStr) and x.parts and isinstance(x.parts[0], str) and "%" in x.parts[0]:
                return x.parts[0], x.parts[1:]
            return None
        fa, fb = fmt(a) if isinstance(a, SymStr) else None, fmt(b) if isinstance(b, SymStr) else None
        if isinstance(a, str) and fb:
            a, b, fa, fb = b, a, fb, None
        if fa and isinstance(b, str):
            prefix = fa[0].split("%")[0]
            if not b.startswith(prefix):
                return False
            return None
        if fa and fb:
            if fa[0] != fb[0]:
                p1, p2 = fa[0].split("%")[0], fb[0].split("%")[0]
                if not (p1.startswith(p2) or p2.startswith(p1)):
                    return False
                return None
            if len(fa[1]) == len(fb[1]) == 1 and all(isinstance(v, (SymInt, int)) for v in (fa[1][0], fb[1][0])):
                ta, tb = term_of(fa[1][0]), term_of(fb[1][0])
                return True if ta == tb else ("==", ta, tb)
        return None

    def node_eq(self, a, b):
        """Are two abstract nodes the same hash-consed object?  True / False / condition term:
        nodes with the same structure whose symbolic constant payloads have equal values are one
        object in the real manager."""
        if a is b:
            return True
        if self.ntype(a) != self.ntype(b):
            return False
        aa, ab = self.nargs(a), self.nargs(b)
        if len(aa) != len(ab):
            return False
        conds = []
        c = self._payload_eq(self.npayload(a), self.npayload(b))
        if c is False:
            return False
        if c is not True:
            conds.append(c)
        for x, y in zip(aa, ab):
            c = self.node_eq(x, y)
            if c is False:
                return False
            if c is not True:
                conds.append(c)
        if not conds:
            return True
        t = conds[0]
        for c in conds[1:]:
            t = ("and", t, c)
        return t

    def _payload_eq(self, p, q):
        if isinstance(p, (tuple, list)) and isinstance(q, (tuple, list)):
            if len(p) != len(q):
                return False
            conds = []
            for x, y in zip(p, q):
                c = self._payload_eq(x, y)
                if c is False:
                    return False
                if c is not True:
                    conds.append(c)
            if not conds:
                return True
            t = conds[0]
            for c in conds[1:]:
                t = ("and", t, c)
            return t
        if isinstance(p, SymInt) or isinstance(q, SymInt):
            if isinstance(p, (SymInt, int, Fraction)) and isinstance(q, (SymInt, int, Fraction)) \
                    and not isinstance(p, bool) and not isinstance(q, bool):
                tp, tq = term_of(p), term_of(q)
                if tp == tq:
                    return True
                return ("==", tp, tq)
            return False
        if isinstance(p, AObj) and isinstance(q, AObj):
            if p is q:
                return True
            if self.is_node(p) and self.is_node(q):
                return self.node_eq(p, q)
            try:
                sp, sq = self.sort_of_tyobj(p), self.sort_of_tyobj(q)
            except Unsupported:
                return p is q
            return self._payload_eq(sp, sq)
        if isinstance(p, Abs) or isinstance(q, Abs):
            return p is q
        return type(p) is type(q) and p == q

    def contains(self, it, container, item):
        if isinstance(item, SymBits) and len(item.bits) == 1 and not item.prefix and isinstance(container, (list, tuple)):
            return True, ("0" in container and "1" in container)
        if isinstance(container, AObj) and container.cls == FM and not self.real_manager:
            return True, self.is_node(item)
        return False, None

    def to_str(self, it, x):
        if isinstance(x, (SymInt, SymBool)):
            return True, SymStr([x])
        if isinstance(x, AObj):
            if self.is_node(x) and self.lazy_services:
                # with full services str(node) is what FNode.__str__ gives (the human-readable printer, interpreted;
                # re-entrant, as in Python: a printer that asks for the text of the node it prints recurses)
                try:
                    r = it.call(it.getattr(x, "__str__"), [])
                    if isinstance(r, str):
                        return True, r
                except Unsupported as ex:
                    if "interpreted call depth" in str(ex):
                        raise
            if x.cls in self.repo.classes and not self.is_node(x):
                for nm in ("__str__", "__repr__"):
                    q, f = self.repo.find_method(x.cls, nm)
                    if f is not None:
                        return True, it.call(it.getattr(x, nm), [])
            return True, SymStr([x])
        if isinstance(x, SymStr):
            return True, x
        if isinstance(x, (ClassRef, ExtRef)):
            return True, str(x)
        return False, None

    def _concretise(self, it, v):
        """Python text of a value whose str() the interpreted program defines, or None."""
        if isinstance(v, (str, int, Fraction)) and not isinstance(v, Abs):
            return v
        if isinstance(v, AObj) and v.cls in self.repo.classes and not self.is_node(v):
            for nm in ("__str__", "__repr__"):
                q, f = self.repo.find_method(v.cls, nm)
                if f is not None:
                    r = it.call(it.getattr(v, nm), [])
                    return r if isinstance(r, str) else None
        if isinstance(v, SymStr):
            return self.to_text(it, v)
        return None

    def to_text(self, it, s):
        """concrete text of a SymStr when every part can be made concrete"""
        if isinstance(s, str):
            return s
        if not isinstance(s, SymStr):
            return None
        return getattr(s, "text", None)

    def concat_str(self, it, parts):
        cs = [self._concretise(it, p) for p in parts]
        if all(isinstance(c, str) for c in cs):
            return True, "".join(cs)
        return True, SymStr(list(parts))

    def format_percent(self, it, fmt, vals):
        if isinstance(fmt, str) and "%" in fmt:
            cs = [self._concretise(it, v) for v in vals]
            if all(c is not None for c in cs):
                try:
                    return True, fmt % tuple(cs)
                except (TypeError, ValueError):
                    pass
        if fmt == "#b%s" and len(vals) == 1 and isinstance(vals[0], (SymBits, str)):
            v = vals[0]
            if isinstance(v, str):
                return True, "#b" + v
            if not v.prefix:
                return True, SymBits(v.bits, prefix="#b")
        return True, SymStr([fmt] + list(vals))

    _DUNDER = {"+": "add", "-": "sub", "*": "mul", "/": "truediv", "//": "floordiv", "%": "mod", "&": "and",
               "|": "or", "^": "xor", "<<": "lshift", ">>": "rshift", "**": "pow"}

    def _dunder(self, it, obj, name, args):
        if isinstance(obj, AObj) and obj.cls in self.repo.classes:
            q, f = self.repo.find_method(obj.cls, name)
            if f is not None:
                return True, it.call(it.getattr(obj, name), args)
        return False, None

    def unop(self, it, op, v):
        name = {"USub": "__neg__", "Invert": "__invert__", "UAdd": "__pos__"}.get(op)
        if name:
            return self._dunder(it, v, name, [])
        return False, None

    def binop(self, it, op, a, b):
        if isinstance(a, SymBits) or isinstance(b, SymBits):
            def bits_of(x):
                if isinstance(x, SymBits) and not x.prefix:
                    return x.bits
                if isinstance(x, str) and all(ch in "01" for ch in x):
                    return [("const", int(ch)) for ch in x]
                return None
            if op == "+":
                ba, bb = bits_of(a), bits_of(b)
                if ba is not None and bb is not None:
                    return True, SymBits(ba + bb)
            if op == "*":
                x, n = (a, b) if isinstance(a, SymBits) else (b, a)
                if isinstance(n, int) and not isinstance(n, bool) and bits_of(x) is not None:
                    return True, SymBits(bits_of(x) * n)
                if isinstance(n, SymInt):
                    raise Unsupported("bit-string repetition by a symbolic count")
            raise Unsupported("operator %s on a symbolic bit string" % op)
        d = self._DUNDER.get(op)
        if d and isinstance(a, AObj):
            hit, r = self._dunder(it, a, "__%s__" % d, [b])
            if hit:
                return hit, r
        if d and isinstance(b, AObj):
            hit, r = self._dunder(it, b, "__r%s__" % d, [a])
            if hit:
                return hit, r
        if isinstance(a, SymStr) or isinstance(b, SymStr):
            if op == "+":
                return True, SymStr([a, b])
            raise Unsupported("operator %s on symbolic string" % op)
        if op == "*" and (isinstance(a, str) and isinstance(b, SymInt) or isinstance(b, str) and isinstance(a, SymInt)):
            raise Unsupported("string repetition by a symbolic count")
        return False, None

    def py_method(self, it, obj, name, args, kwargs):
        if isinstance(obj, str) and name == "format":
            import re as _re
            m = _re.match(r"^\{0?:0(\d+)b\}$", obj)
            if m and len(args) == 1 and isinstance(args[0], SymInt):
                n = int(m.group(1))
                t = args[0].t
                return True, SymBits([("&", (">>", t, ("const", i)), ("const", 1)) for i in range(n - 1, -1, -1)])
            return True, SymStr([obj] + list(args))
        if isinstance(obj, str) and name in ("join",):
            return True, SymStr([obj] + list(it.iterate(args[0])))
        return False, None

    def slice(self, it, c, lo, hi, step):
        if isinstance(c, SymBits) and not any(isinstance(x, Abs) for x in (lo, hi, step)):
            if c.prefix:
                # slicing off a literal prefix:  value[2:]
                if lo == len(c.prefix) and hi is None and step is None:
                    return True, SymBits(c.bits)
                raise Unsupported("slice of a prefixed bit string")
            return True, SymBits(c.bits[lo:hi:step])
        return False, None

    def getitem(self, it, c, k):
        if isinstance(c, SymBits) and isinstance(k, int) and not c.prefix:
            try:
                return True, SymBits([c.bits[k]])
            except IndexError:
                raise AbsRaise("IndexError", ("string index out of range",))
        return False, None

    def len(self, it, v):
        if isinstance(v, SymBits):
            return True, len(v.prefix) + len(v.bits)
        return False, None

    def iterate(self, it, v):
        if isinstance(v, SymBits) and not v.prefix:
            return True, [SymBits([b]) for b in v.bits]
        return False, None

    def int(self, it, args):
        if isinstance(args[0], SymBits) and len(args) == 2 and args[1] == 2 and not args[0].prefix:
            bits = args[0].bits
            if not bits:
                raise AbsRaise("ValueError", ("invalid literal for int() with base 2: ''",))
            t = None
            n = len(bits)
            for i, b in enumerate(bits):
                term = ("*", b, ("const", 1 << (n - 1 - i)))
                t = term if t is None else ("+", t, term)
            return True, SymInt(t)
        return False, None

    def id(self, it, v):
        if self.is_node(v):
            return True, v.attrs["_node_id"]
        return False, None



def _is_int_like(v):
    if isinstance(v, bool):
        return False
    if isinstance(v, int):
        return True
    return isinstance(v, SymInt)


def _p_is_int(it, a, k):
    v = a[0]
    if isinstance(v, SymInt):
        w = it.domain
        kind = w.kinds.get(v.t[1]) if v.t[0] == "var" else None
        return kind != "real"
    return isinstance(v, int) and not isinstance(v, bool)


def _p_is_fraction(it, a, k):
    v = a[0]
    if isinstance(v, SymInt):
        w = it.domain
        return v.t[0] == "var" and w.kinds.get(v.t[1]) == "real"
    return isinstance(v, Fraction)


def _p_is_rational(it, a, k):
    v = a[0]
    if isinstance(v, SymInt):
        return True
    return (isinstance(v, (int, float, Fraction)) and not isinstance(v, bool))


def _p_is_string(it, a, k):
    return isinstance(a[0], (str, SymStr))


def _p_is_bool(it, a, k):
    return a[0] is True or a[0] is False


def _p_ident(it, a, k):
    return a[0]


def _p_frac_from(it, a, k):
    v = a[0]
    if isinstance(v, SymInt):
        return v
    try:
        return Fraction(v)
    except (TypeError, ValueError) as ex:
        raise AbsRaise(type(ex).__name__, ex.args)


_CONST_PRED = {
    "is_pysmt_integer": _p_is_int, "is_python_integer": _p_is_int, "is_pysmt_fraction": _p_is_fraction,
    "is_python_rational": _p_is_rational, "is_python_string": _p_is_string, "is_python_boolean": _p_is_bool,
    "pysmt_integer_from_integer": _p_ident, "pysmt_fraction_from_rational": _p_frac_from,
    "to_python_integer": _p_ident,
}



class RealMgrWorld(World):
    """The formula manager is not modelled: FormulaManager.__init__, create_node, its tables and counters, FNode and
    the construction-time type check (the environment's SimpleTypeChecker) are all interpreted from source."""

    def attach(self, it):
        World.attach(self, it)
        self.real_manager = True
        self.lazy_services = True        # services (incl. the printer behind str(node) in error messages) are the real classes
        self.env.attrs["_stc"] = it.instantiate(ClassRef(STC), [self.env], {})
        self.mgr = it.instantiate(ClassRef(FM), [self.env], {})
        self.env.attrs["_formula_manager"] = self.mgr
        return self

    def new_environment(self):
        """A further environment of the same interpretation: its own type manager, type checker and (real) formula
        manager.  Returns (env, mgr); `using(env, mgr)` makes it the one the world's helpers build in."""
        it = self.it
        env = AObj(ENV, {"enable_infix_notation": True, "enable_div_by_0": True, "allow_empty_var_names": False, "dwf": {},
                         "_fvo": AObj("pysmt.oracles.FreeVarsOracle", {}, tag="fvo-model"), "_factory": None})
        env.attrs["_type_manager"] = it.instantiate(ClassRef("pysmt.typing.TypeManager"), [env], {})
        env.attrs["_stc"] = it.instantiate(ClassRef(STC), [env], {})
        mgr = it.instantiate(ClassRef(FM), [env], {})
        env.attrs["_formula_manager"] = mgr
        return env, mgr

    def using(self, env, mgr):
        world = self

        class _Ctx(object):
            def __enter__(self_):
                self_.saved = (world.env, world.mgr)
                world.env, world.mgr = env, mgr

            def __exit__(self_, *a):
                world.env, world.mgr = self_.saved
                return False
        return _Ctx()

    def mk_node(self, node_type, args, payload):
        if not self.real_manager:       # during World.attach only
            return World.mk_node(self, node_type, args, payload)
        return self.it.call(self.it.getattr(self.mgr, "create_node"), [node_type, tuple(args), payload], {})
