"""Handler tables of Walker subclasses obtained by *interpreting* the dispatch machinery of pysmt/walkers/generic.py:
the decorator `handles` (its __init__ / __call__), MetaNodeTypeHandler.__new__ and Walker.set_handler are run by the
abstract interpreter on stand-ins for the function objects and for the class under construction.  What a class body
contributes (its ordered dictionary of definitions, which decorators sit on which def) is read from the syntax tree;
what the metaclass makes of it is decided by the repository's own code.  (handlers.py holds the same semantics as a
static model; it is the fall-back when this interpretation is not possible, and the two are compared.)"""
import ast

from .absint import Interp, Explorer, AObj, ClassRef, Func, Prim, Domain, AbsRaise, Unsupported
from .loader import AnalysisError

FUNOBJ = "sa_meta.function"
CLSOBJ = "sa_meta.class"
WALKER = "pysmt.walkers.generic.Walker"
META = "pysmt.walkers.generic.MetaNodeTypeHandler"
HANDLES = "pysmt.walkers.generic.handles"


class _MetaDomain(Domain):
    def __init__(self, repo):
        self.repo = repo

    def getattr(self, it, obj, name):
        if isinstance(obj, Prim) and obj.name == "type" and name == "__new__":
            def type_new(it_, a, k):
                # type.__new__(metacls, name, bases, dct): the class object, its namespace a copy of dct
                dct = a[3]
                c = AObj(CLSOBJ, dict(dct), tag=a[1])
                return c
            return True, Prim(type_new, "type.__new__")
        if isinstance(obj, AObj) and obj.cls in (FUNOBJ, CLSOBJ):
            if name == "__dict__":
                return True, obj.attrs          # the live namespace (what setattr on the class writes into)
            if name in obj.attrs and not (obj.cls == CLSOBJ and name == "set_handler"):
                return True, obj.attrs[name]
            if obj.cls == CLSOBJ and name == "set_handler":
                q, f = self.repo.find_method(WALKER, "set_handler")
                if f is None:
                    raise Unsupported("Walker.set_handler vanished")
                fn = Func(f, self.repo.classes[q].module, q)
                return True, Prim(lambda it_, a, k, fn=fn, c=obj: it_.call_func(fn, [c] + list(a), dict(k)), "set_handler")
            raise AbsRaise("AttributeError", ("%s has no attribute %s" % (obj.cls, name),))
        return False, None

    def setattr(self, it, obj, name, v):
        if isinstance(obj, AObj) and obj.cls in (FUNOBJ, CLSOBJ):
            obj.attrs[name] = v
            return True
        return False


def _keeps_attributes(repo, r):
    from .handlers import _uses_wraps
    return _uses_wraps(repo, r)


def class_namespace(repo, ops, qual):
    """walk_* name -> (FunctionDef, how) contributed by class `qual` itself, after its metaclass ran."""
    ci = repo.cls(qual)
    meta_q, meta_new = repo.find_method(META, "__new__")
    if meta_new is None:
        raise Unsupported("MetaNodeTypeHandler.__new__ vanished")

    def one(ex):
        it = Interp(ex, domain=_MetaDomain(repo), max_steps=3000000, max_loop=100000)
        by_def = {}
        dct = {}
        for name in ci.order:
            kind, v = ci.attrs[name]
            if kind == "func":
                F = AObj(FUNOBJ, {"__name__": v.name, "_def": v})
                for dec in reversed(v.decorator_list):      # decorators apply bottom-up
                    target = dec.func if isinstance(dec, ast.Call) else dec
                    r = repo.resolve_expr(ci.module, target)
                    if r and r[0] == "class" and r[1] == HANDLES:
                        if not isinstance(dec, ast.Call):
                            raise Unsupported("bare @handles on %s.%s" % (qual, v.name))
                        args = []
                        for a in dec.args:
                            val = ops.ce.expr(ci.module, a)
                            args.append(val if isinstance(val, int) else list(val))
                        h = it.instantiate(ClassRef(HANDLES), args, {})
                        F = it.call(it.getattr(h, "__call__"), [F])
                    elif not _keeps_attributes(repo, r):
                        # a wrapper that does not copy function attributes: a new function object
                        F = AObj(FUNOBJ, {"__name__": v.name, "_def": v})
                by_def[id(v)] = F
                dct[name] = F
            elif kind == "alias":
                f = ci.own_func(name)
                if f is not None and id(f) in by_def:
                    dct[name] = by_def[id(f)]
            # other class attributes carry no node types
        bases = tuple(ClassRef(b) for b in repo.mro(qual)[1:2])
        cobj = it.call_func(Func(meta_new, repo.classes[meta_q].module, meta_q), [ClassRef(META), qual.split(".")[-1], bases, dct], {})
        if not (isinstance(cobj, AObj) and cobj.cls == CLSOBJ):
            raise Unsupported("the metaclass returned %r" % (cobj,))
        out = {}
        for name, val in cobj.attrs.items():
            if name.startswith("walk_") and isinstance(val, AObj) and val.cls == FUNOBJ:
                out[name] = (val.attrs["_def"], "def" if name in dct and dct[name] is val and val.attrs["_def"].name == name else "handles")
        return out
    from . import absint as _ai
    saved = (_ai._CUR_INTERP[0], _ai._IDHASH_COUNTER[0])      # this may run in the middle of another interpretation
    try:
        paths = Explorer(max_paths=2).run(one)
    finally:
        _ai._CUR_INTERP[0], _ai._IDHASH_COUNTER[0] = saved
    if len(paths) != 1 or paths[0].kind != "return":
        p = paths[0]
        raise Unsupported("%s %s" % (p.kind, str(p.value)[:200]))
    return paths[0].value
