"""CLI:  python -m sa check <PROP> [--tier quick|thorough] [--rule Rk]
         python -m sa replay <path>
         python -m sa all [--tier ...]
Exit codes: 0 property clauses held (known findings printed), 1 unlisted violation,
2 analysis error (never a violation)."""
import argparse
import importlib
import json
import os
import sys
import traceback
import warnings

warnings.simplefilter("ignore")

if os.environ.get("PYTHONHASHSEED") != "0":
    # reproducible runs: the iteration order of the analyser's sets of strings (and with it the order in which paths are
    # explored and costs are measured) must not change from one run to the next
    os.environ["PYTHONHASHSEED"] = "0"
    _here = os.path.dirname(os.path.dirname(os.path.abspath(__file__)))      # the directory that holds the package: found again
    os.environ["PYTHONPATH"] = _here + (os.pathsep + os.environ["PYTHONPATH"] if os.environ.get("PYTHONPATH") else "")
    os.execv(sys.executable, [sys.executable, "-m", "sa"] + sys.argv[1:])

from .loader import AnalysisError
from . import report

PROPS = ["C%02d" % i for i in range(1, 21)]


def run_check(prop, tier, only_rule=None, no_evidence=False):
    ctx = report.Ctx(prop, tier, only_rule)
    ctx.no_evidence = no_evidence
    try:
        mod = importlib.import_module("sa.rules.%s" % prop.lower())
    except ImportError as ex:
        print("ANALYSIS-ERROR property=%s no rule module: %s" % (prop, ex))
        return 2
    try:
        mod.run(ctx)
    except AnalysisError as ex:
        ctx.error("engine", str(ex))
    except Exception as ex:   # a crash of the analysis is never a violation
        traceback.print_exc()
        ctx.error("engine", "internal error %s: %s" % (type(ex).__name__, ex))
    return report.finish(ctx, mod.EXPLANATION, mod.NOT_DECIDED)


def main(argv=None):
    ap = argparse.ArgumentParser(prog="sa")
    sub = ap.add_subparsers(dest="cmd")
    c = sub.add_parser("check")
    c.add_argument("prop")
    c.add_argument("--tier", default=os.environ.get("VERIF_TIER", "quick"))
    c.add_argument("--rule", default=None)
    c.add_argument("--no-evidence", action="store_true")
    r = sub.add_parser("replay")
    r.add_argument("path")
    a = sub.add_parser("all")
    a.add_argument("--tier", default="quick")
    st = sub.add_parser("selftest")
    st.add_argument("--jobs", type=int, default=16)
    st.add_argument("--only", default=None)
    args = ap.parse_args(argv)
    if args.cmd == "check":
        return run_check(args.prop.upper(), args.tier, args.rule, args.no_evidence)
    if args.cmd == "replay":
        with open(args.path) as f:
            d = json.load(f)
        print("replaying %s rule %s\n  recorded: %s\n  at %s\n  key %s"
              % (d["property"], d["rule"], d["message"], d["location"], d["key"]))
        rc = run_check(d["property"], "quick", d["rule"])
        return rc
    if args.cmd == "all":
        worst = 0
        for p in PROPS:
            rc = run_check(p, args.tier)
            worst = max(worst, rc)
        return worst
    if args.cmd == "selftest":
        from . import selftest
        return selftest.main(args.jobs, args.only)
    ap.print_help()
    return 2


if __name__ == "__main__":
    try:
        rc = main()
    except SystemExit:
        raise
    except Exception:
        traceback.print_exc()
        print("ANALYSIS-ERROR internal")
        rc = 2
    sys.stdout.flush()
    os._exit(rc)
