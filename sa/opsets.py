"""Constant folding of module-level operator tables (pysmt/operators.py and the
operator-set constants other modules derive from it).

A tiny, safe evaluator over ast: literals, tuples/lists/sets/dicts, range, frozenset/set/list/
tuple calls, set algebra, names bound at module level (including tuple-unpacking assignment)
and `alias.NAME` through imports.  Anything else -> NotConst.
"""
import ast

from .loader import AnalysisError, get_repo


class NotConst(Exception):
    pass


class ConstEval(object):
    def __init__(self, repo):
        self.repo = repo
        self.cache = {}
        self.busy = set()

    def name(self, module, name):
        key = (module.name, name)
        if key in self.cache:
            return self.cache[key]
        if key in self.busy:
            raise NotConst("cyclic %s.%s" % key)
        self.busy.add(key)
        try:
            r = self.repo.resolve(module, name)
            if r is None:
                raise NotConst("unbound %s in %s" % (name, module.name))
            if r[0] == "assign":
                _, m, st, target = r
                val = self.expr(m, st.value)
                res = self._select(st, target, name, val)
            elif r[0] == "class":
                raise NotConst("class %s" % r[1])
            else:
                raise NotConst("%s is %s" % (name, r[0]))
            self.cache[key] = res
            return res
        finally:
            self.busy.discard(key)

    def _select(self, st, target, name, val):
        # st.targets may be a tuple-unpack; find `name` inside the target structure
        def pick(t, v):
            if isinstance(t, ast.Name):
                return v if t.id == name else _MISSING
            if isinstance(t, (ast.Tuple, ast.List)):
                v = list(v)
                if len(v) != len(t.elts):
                    raise NotConst("unpack arity")
                for e, x in zip(t.elts, v):
                    r = pick(e, x)
                    if r is not _MISSING:
                        return r
            return _MISSING
        r = pick(target, val)
        if r is _MISSING:
            raise NotConst("target %s not found" % name)
        return r

    def expr(self, m, n):
        if isinstance(n, ast.Constant):
            return n.value
        if isinstance(n, ast.Tuple):
            return tuple(self._elts(m, n.elts))
        if isinstance(n, ast.List):
            return list(self._elts(m, n.elts))
        if isinstance(n, ast.Set):
            return set(self._elts(m, n.elts))
        if isinstance(n, ast.Dict):
            return dict((self.expr(m, k), self.expr(m, v)) for k, v in zip(n.keys, n.values))
        if isinstance(n, ast.Name):
            if n.id in ("True", "False", "None"):
                return {"True": True, "False": False, "None": None}[n.id]
            return self.name(m, n.id)
        if isinstance(n, ast.Attribute):
            base = self.repo.resolve_expr(m, n.value)
            if base and base[0] == "module" and base[1] in self.repo.modules:
                return self.name(self.repo.modules[base[1]], n.attr)
            if base and base[0] == "class":
                ci = self.repo.classes.get(base[1])
                if ci and n.attr in ci.attrs and ci.attrs[n.attr][0] in ("expr", "unpack"):
                    return self._classattr(ci, n.attr)
            raise NotConst("attribute %s" % ast.dump(n))
        if isinstance(n, ast.BinOp):
            l, r = self.expr(m, n.left), self.expr(m, n.right)
            try:
                if isinstance(n.op, ast.BitOr):
                    return l | r
                if isinstance(n.op, ast.BitAnd):
                    return l & r
                if isinstance(n.op, ast.Sub):
                    return l - r
                if isinstance(n.op, ast.Add):
                    return l + r
                if isinstance(n.op, ast.Mult):
                    return l * r
                if isinstance(n.op, ast.Mod):
                    if isinstance(l, str):
                        return l % r
                    return l % r
            except TypeError as ex:
                raise NotConst(str(ex))
            raise NotConst("binop")
        if isinstance(n, ast.UnaryOp) and isinstance(n.op, ast.USub):
            return -self.expr(m, n.operand)
        if isinstance(n, ast.Call) and isinstance(n.func, ast.Name) and not n.keywords:
            f = n.func.id
            args = [self.expr(m, a) for a in n.args]
            try:
                if f == "frozenset":
                    return frozenset(*args)
                if f == "set":
                    return set(*args)
                if f == "list":
                    return list(*args)
                if f == "tuple":
                    return tuple(*args)
                if f == "range":
                    return range(*args)
                if f == "len":
                    return len(*args)
                if f == "sorted":
                    return sorted(*args)
            except TypeError as ex:
                raise NotConst(str(ex))
        raise NotConst("unsupported %s" % type(n).__name__)

    def _classattr(self, ci, attr):
        # class-level constant, possibly tuple-unpacked: (A, B) = range(2)
        for st in ci.node.body:
            if isinstance(st, ast.Assign):
                for t in st.targets:
                    names = []
                    if isinstance(t, ast.Name):
                        names = [t.id]
                    elif isinstance(t, ast.Tuple):
                        names = [e.id for e in t.elts if isinstance(e, ast.Name)]
                    if attr in names:
                        val = self.expr(ci.module, st.value)
                        if isinstance(t, ast.Name):
                            return val
                        return list(val)[names.index(attr)]
        raise NotConst("class attr %s" % attr)

    def _elts(self, m, elts):
        out = []
        for e in elts:
            if isinstance(e, ast.Starred):
                out.extend(self.expr(m, e.value))
            else:
                out.append(self.expr(m, e))
        return out


_MISSING = object()


class Ops(object):
    """The operator universe as pysmt/operators.py defines it today."""

    GROUPS = ["QUANTIFIERS", "BOOL_CONNECTIVES", "BOOL_OPERATORS", "CONSTANTS", "BV_RELATIONS",
              "IRA_RELATIONS", "STR_RELATIONS", "RELATIONS", "BV_OPERATORS", "STR_OPERATORS",
              "IRA_OPERATORS", "ARRAY_OPERATORS", "THEORY_OPERATORS"]

    def __init__(self, repo=None):
        self.repo = repo or get_repo()
        self.ce = ConstEval(self.repo)
        m = self.repo.module("pysmt.operators")
        self.module = m
        try:
            self.all_types = list(self.ce.name(m, "ALL_TYPES"))
            self.op_str = dict(self.ce.name(m, "__OP_STR__"))
        except NotConst as ex:
            raise AnalysisError("cannot fold pysmt.operators: %s" % ex)
        self.name_to_id = {}
        for nm, b in m.ns.items():
            if b[0] == "assign" and nm.isupper():
                try:
                    v = self.ce.name(m, nm)
                except NotConst:
                    continue
                if isinstance(v, int) and not isinstance(v, bool):
                    self.name_to_id[nm] = v
        self.id_to_name = dict((v, k) for k, v in self.name_to_id.items())
        self.groups = {}
        for g in self.GROUPS:
            try:
                self.groups[g] = frozenset(self.ce.name(m, g))
            except NotConst as ex:
                raise AnalysisError("cannot fold operators.%s: %s" % (g, ex))
        missing = [o for o in self.all_types if o not in self.op_str]
        if missing:
            raise AnalysisError("operators without __OP_STR__ entry: %s" % missing)
        if len(self.all_types) < 60:
            raise AnalysisError("operator universe shrank to %d" % len(self.all_types))

    def walk_name(self, o):
        return "walk_" + self.op_str[o].lower()

    def name(self, o):
        return self.id_to_name.get(o, self.op_str.get(o, str(o)))

    def id(self, name):
        return self.name_to_id[name]

    def __iter__(self):
        return iter(self.all_types)


_OPS = None


def get_ops():
    global _OPS
    if _OPS is None:
        _OPS = Ops()
    return _OPS
