"""Systematic skeleton generator (thorough tier): typed terms enumerated from the operator signatures.

The hand-written menus of the rules decide what their authors thought of.  This module enumerates, from the
reference signature function (refsem.result_sort) and a table constructor name -> operator, every well-sorted
application of every constructor to the leaves of a fixed pool (symbols and literals of each sort, bit-vector
widths 1, 3 and 4, an array and a nested array, strings, a user sort) - depth 1 - and every term obtained by
replacing one operand of such an application by a depth-1 term of the same sort - depth 2.  A deterministic
stride selects a sample of the requested size, balanced over the constructors.  Boolean-sorted terms are
formulas; terms of other sorts are turned into formulas by an equality with a symbol of their sort, so that every
rule that takes formulas can use them."""
import itertools
from fractions import Fraction

from . import refsem

BOOL, INT, REAL, STRING = refsem.BOOL, refsem.INT, refsem.REAL, refsem.STRING
B1, B3, B4 = ("BV", 1), ("BV", 3), ("BV", 4)
ARR = ("ARRAY", INT, INT)
ARRB = ("ARRAY", B3, BOOL)
ARR2 = ("ARRAY", INT, ("ARRAY", INT, REAL))
US = ("CUSTOM", "U")


def S(n, s=BOOL):
    return ("sym", n, s)


def L(v, s):
    return ("lit", v, s)


LEAVES = {
    BOOL: [S("a"), S("b"), L(True, BOOL), L(False, BOOL)],
    INT: [S("x", INT), S("y", INT), L(0, INT), L(1, INT), L(-2, INT), L(7, INT)],
    REAL: [S("r", REAL), S("s", REAL), L(0, REAL), L(Fraction(1, 2), REAL), L(Fraction(-3, 2), REAL)],
    B1: [S("w1", B1), L(1, B1)],
    B3: [S("u", B3), S("v", B3), L(0, B3), L(5, B3), L(7, B3)],
    B4: [S("u4", B4), L(8, B4), L(15, B4)],
    STRING: [S("st", STRING), S("tt", STRING), L("", STRING), L("ab", STRING), L("a\"b", STRING)],
    ARR: [S("arr", ARR)],
    ARRB: [S("arb", ARRB)],
    ARR2: [S("ar2", ARR2)],
    US: [S("e1", US), S("e2", US)],
}

# constructor, operator, arities
CTORS = [
    ("And", "AND", (2, 3)), ("Or", "OR", (2, 3)), ("Not", "NOT", (1,)), ("Implies", "IMPLIES", (2,)), ("Iff", "IFF", (2,)),
    ("Ite", "ITE", (3,)), ("Plus", "PLUS", (2, 3)), ("Minus", "MINUS", (2,)), ("Times", "TIMES", (2,)), ("Div", "DIV", (2,)),
    ("LE", "LE", (2,)), ("LT", "LT", (2,)), ("Equals", "EQUALS", (2,)), ("ToReal", "TOREAL", (1,)),
    ("BVNot", "BV_NOT", (1,)), ("BVNeg", "BV_NEG", (1,)), ("BVAnd", "BV_AND", (2,)), ("BVOr", "BV_OR", (2,)), ("BVXor", "BV_XOR", (2,)),
    ("BVAdd", "BV_ADD", (2,)), ("BVSub", "BV_SUB", (2,)), ("BVMul", "BV_MUL", (2,)), ("BVUDiv", "BV_UDIV", (2,)),
    ("BVURem", "BV_UREM", (2,)), ("BVSDiv", "BV_SDIV", (2,)), ("BVSRem", "BV_SREM", (2,)), ("BVLShl", "BV_LSHL", (2,)),
    ("BVLShr", "BV_LSHR", (2,)), ("BVAShr", "BV_ASHR", (2,)), ("BVULT", "BV_ULT", (2,)), ("BVULE", "BV_ULE", (2,)),
    ("BVSLT", "BV_SLT", (2,)), ("BVSLE", "BV_SLE", (2,)), ("BVComp", "BV_COMP", (2,)), ("BVConcat", "BV_CONCAT", (2,)),
    ("BVToNatural", "BV_TONATURAL", (1,)),
    ("StrLength", "STR_LENGTH", (1,)), ("StrConcat", "STR_CONCAT", (2, 3)), ("StrContains", "STR_CONTAINS", (2,)),
    ("StrIndexOf", "STR_INDEXOF", (3,)), ("StrReplace", "STR_REPLACE", (3,)), ("StrSubstr", "STR_SUBSTR", (3,)),
    ("StrPrefixOf", "STR_PREFIXOF", (2,)), ("StrSuffixOf", "STR_SUFFIXOF", (2,)), ("StrToInt", "STR_TO_INT", (1,)),
    ("IntToStr", "INT_TO_STR", (1,)), ("StrCharAt", "STR_CHARAT", (2,)),
    ("Select", "ARRAY_SELECT", (2,)), ("Store", "ARRAY_STORE", (3,)),
]
# constructors with python parameters: (constructor, operator, operand sort, parameter tuples)
INDEXED = [("BVExtract", "BV_EXTRACT", B3, [(0, 0), (0, 2), (1, 2)]), ("BVExtract", "BV_EXTRACT", B4, [(1, 3)]),
           ("BVRol", "BV_ROL", B3, [(1,), (3,)]), ("BVRor", "BV_ROR", B3, [(2,)]), ("BVZExt", "BV_ZEXT", B3, [(0,), (2,)]),
           ("BVSExt", "BV_SEXT", B3, [(1,)]), ("BVSExt", "BV_SEXT", B1, [(2,)])]


def sort_of(t):
    if t[0] in ("sym", "lit"):
        return t[2]
    return t[-1]           # generated applications carry their sort as last element (stripped by `strip`)


def strip(t):
    """Generated term -> shape tuple as the rules' builders expect it."""
    if t[0] in ("sym", "lit"):
        return t
    return (t[0],) + tuple(strip(x) if isinstance(x, tuple) else x for x in t[1:-1])


def _payload(op, params):
    if op == "BV_EXTRACT":
        return params
    return params


def depth1():
    out = []
    sorts = list(LEAVES)
    for ctor, op, arities in CTORS:
        for n in arities:
            for combo in itertools.product(sorts, repeat=n):
                try:
                    rs = refsem.result_sort(op, list(combo), None)
                except refsem.NoSemantics:
                    rs = None
                if rs is None:
                    continue
                # one application per leaf choice pattern: first leaves, second leaves, mixed
                for pick in range(3):
                    args = []
                    for i, so in enumerate(combo):
                        lv = LEAVES[so]
                        args.append(lv[(pick + i * (pick + 1)) % len(lv)])
                    out.append((ctor,) + tuple(args) + (rs,))
    for ctor, op, so, plist in INDEXED:
        for params in plist:
            rs = refsem.result_sort(op, [so], params)
            if rs is None:
                continue
            for lv in LEAVES[so][:2]:
                out.append((ctor, lv) + tuple(params) + (rs,))
    # the same node at two operand positions
    for ctor, op, arities in CTORS:
        if 2 in arities:
            for so in sorts:
                try:
                    rs = refsem.result_sort(op, [so, so], None)
                except refsem.NoSemantics:
                    rs = None
                if rs is not None:
                    out.append((ctor, LEAVES[so][0], LEAVES[so][0], rs))
    # de-duplicate, keep order
    seen, res = set(), []
    for t in out:
        k = repr(t)
        if k not in seen:
            seen.add(k)
            res.append(t)
    return res


def depth2(d1, per_ctor=6):
    """Outer application of depth 1 with one operand replaced by a depth-1 term of the same sort."""
    by_sort = {}
    for t in d1:
        by_sort.setdefault(sort_of(t), []).append(t)
    out = []
    count = {}
    for outer in d1:
        ctor = outer[0]
        for pos in range(1, len(outer) - 1):
            x = outer[pos]
            if not isinstance(x, tuple) or x[0] not in ("sym", "lit"):
                continue
            cands = by_sort.get(sort_of(x), [])
            if not cands:
                continue
            k = (ctor, pos)
            c = count.get(k, 0)
            if c >= per_ctor:
                continue
            inner = cands[(c * 7 + len(out)) % len(cands)]
            count[k] = c + 1
            out.append(outer[:pos] + (inner,) + outer[pos + 1:])
    return out


def as_formula(t):
    so = sort_of(t)
    sh = strip(t)
    if so == BOOL:
        return sh
    if so[0] == "FUN":
        return None
    return ("Equals", sh, S("z_" + "_".join(str(p) for p in _flat(so)), so)) if so != BOOL else sh


def _flat(so):
    out = []
    for x in so:
        if isinstance(x, tuple):
            out.extend(_flat(x))
        else:
            out.append(x)
    return out


_CACHE = {}


def formulas(limit=600, depth=2):
    """Deterministic sample of generated formulas (shape tuples)."""
    key = (limit, depth)
    if key not in _CACHE:
        d1 = depth1()
        terms = list(d1)
        if depth >= 2:
            terms += depth2(d1)
        fs = []
        seen = set()
        for t in terms:
            f = as_formula(t)
            if f is None:
                continue
            k = repr(f)
            if k not in seen:
                seen.add(k)
                fs.append(f)
        if len(fs) > limit:
            stride = len(fs) / float(limit)
            fs = [fs[int(i * stride)] for i in range(limit)]
        _CACHE[key] = fs
    return _CACHE[key]


def terms(limit=600, depth=2):
    """Generated terms of any sort (shape tuples) - for rules that take terms (typing, sizes, free symbols)."""
    d1 = depth1()
    ts = list(d1) + (depth2(d1) if depth >= 2 else [])
    out = [strip(t) for t in ts]
    if len(out) > limit:
        stride = len(out) / float(limit)
        out = [out[int(i * stride)] for i in range(limit)]
    return out
