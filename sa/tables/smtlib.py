"""Reference tables written from the SMT-LIB 2.6 theory definitions (Core, Ints, Reals,
Reals_Ints, FixedSizeBitVectors + QF_BV extensions, ArraysEx, Strings draft as implemented by the
solvers pySMT targets) and pySMT's documented extensions.  These are the independent oracle of the
printer / parser rules; they are data, not code under analysis.

OP_NAMES: operator -> accepted SMT-LIB spellings of the *function symbol* a printer may emit.
INDEXED:  operator -> (identifier, [payload accessors in printed order])
"""

OP_NAMES = {
    "AND": {"and"}, "OR": {"or"}, "NOT": {"not"}, "IMPLIES": {"=>"}, "IFF": {"="},
    "PLUS": {"+"}, "MINUS": {"-"}, "TIMES": {"*"}, "DIV": {"/"}, "POW": {"pow"},
    "LE": {"<="}, "LT": {"<"}, "EQUALS": {"="}, "ITE": {"ite"}, "TOREAL": {"to_real"},
    "BV_NOT": {"bvnot"}, "BV_AND": {"bvand"}, "BV_OR": {"bvor"}, "BV_XOR": {"bvxor"},
    "BV_CONCAT": {"concat"}, "BV_ULT": {"bvult"}, "BV_ULE": {"bvule"}, "BV_NEG": {"bvneg"},
    "BV_ADD": {"bvadd"}, "BV_SUB": {"bvsub"}, "BV_MUL": {"bvmul"}, "BV_UDIV": {"bvudiv"},
    "BV_UREM": {"bvurem"}, "BV_LSHL": {"bvshl"}, "BV_LSHR": {"bvlshr"}, "BV_SLT": {"bvslt"},
    "BV_SLE": {"bvsle"}, "BV_COMP": {"bvcomp"}, "BV_SDIV": {"bvsdiv"}, "BV_SREM": {"bvsrem"},
    "BV_ASHR": {"bvashr"}, "BV_TONATURAL": {"bv2nat"},
    "STR_LENGTH": {"str.len"}, "STR_CONCAT": {"str.++"}, "STR_CONTAINS": {"str.contains"},
    "STR_INDEXOF": {"str.indexof"}, "STR_REPLACE": {"str.replace"}, "STR_SUBSTR": {"str.substr"},
    "STR_PREFIXOF": {"str.prefixof"}, "STR_SUFFIXOF": {"str.suffixof"},
    "STR_TO_INT": {"str.to.int", "str.to_int"}, "INT_TO_STR": {"int.to.str", "str.from_int"},
    "STR_CHARAT": {"str.at"},
    "ARRAY_SELECT": {"select"}, "ARRAY_STORE": {"store"},
    "FORALL": {"forall"}, "EXISTS": {"exists"},
}

INDEXED = {
    "BV_EXTRACT": ("extract", ["bv_extract_end", "bv_extract_start"]),   # (_ extract i j): i high, j low
    "BV_ROL": ("rotate_left", ["bv_rotation_step"]),
    "BV_ROR": ("rotate_right", ["bv_rotation_step"]),
    "BV_ZEXT": ("zero_extend", ["bv_extend_step"]),
    "BV_SEXT": ("sign_extend", ["bv_extend_step"]),
}

# operators printed by dedicated code (constants, symbols, applications, array literals)
SPECIAL = {"SYMBOL", "FUNCTION", "REAL_CONSTANT", "BOOL_CONSTANT", "INT_CONSTANT", "STR_CONSTANT",
           "BV_CONSTANT", "ARRAY_VALUE"}

# no SMT-LIB literal syntax exists for algebraic numbers; such nodes only come back from Z3 models
EXEMPT_PRINT = {"ALGEBRAIC_CONSTANT": "SMT-LIB has no literal syntax for algebraic numbers"}

# parser: token -> (FormulaManager constructor expected, note).  Constructor names are pySMT API
# names; what each constructor *builds* is checked separately through the constructor summaries.
TOKENS = {
    "+": "Plus", "-": "<minus_or_uminus>", "*": "Times", "/": "<division>", "pow": "Pow",
    ">": "GT", "<": "LT", ">=": "GE", "<=": "LE", "=": "<equals_or_iff>",
    "not": "Not", "and": "And", "or": "Or", "xor": "Xor", "=>": "Implies", "<->": "Iff",
    "ite": "Ite", "distinct": "AllDifferent", "to_real": "ToReal",
    "concat": "BVConcat", "bvnot": "BVNot", "bvand": "BVAnd", "bvor": "BVOr", "bvneg": "BVNeg",
    "bvadd": "BVAdd", "bvmul": "BVMul", "bvudiv": "BVUDiv", "bvurem": "BVURem", "bvshl": "BVLShl",
    "bvlshr": "BVLShr", "bvsub": "BVSub", "bvult": "BVULT", "bvxor": "BVXor",
    "bvnand": "BVNand", "bvnor": "BVNor", "bvxnor": "BVXnor", "bvcomp": "BVComp",
    "bvsdiv": "BVSDiv", "bvsrem": "BVSRem", "bvsmod": "BVSMod", "bvashr": "BVAShr",
    "bvule": "BVULE", "bvugt": "BVUGT", "bvuge": "BVUGE", "bvslt": "BVSLT", "bvsle": "BVSLE",
    "bvsgt": "BVSGT", "bvsge": "BVSGE",
    "str.len": "StrLength", "str.++": "StrConcat", "str.at": "StrCharAt",
    "str.contains": "StrContains", "str.indexof": "StrIndexOf", "str.replace": "StrReplace",
    "str.substr": "StrSubstr", "str.prefixof": "StrPrefixOf", "str.suffixof": "StrSuffixOf",
    "str.to.int": "StrToInt", "int.to.str": "IntToStr", "str.to_int": "StrToInt",
    "str.from_int": "IntToStr", "bv2nat": "BVToNatural",
    "select": "Select", "store": "Store",
}

# tokens handled by dedicated enter-functions
SPECIAL_TOKENS = {"let": "_enter_let", "!": "_enter_annotation", "exists": "_enter_quantifier",
                  "forall": "_enter_quantifier", "_": "_smtlib_underscore", "as": "_enter_smtlib_as"}

# fix_real wrappers: parser attribute -> manager constructor
FIX_REAL = {"LT": "LT", "GT": "GT", "LE": "LE", "GE": "GE", "Equals": "Equals",
            "EqualsOrIff": "EqualsOrIff", "Plus": "Plus", "Minus": "Minus", "Times": "Times",
            "Div": "Div", "Ite": "Ite", "AllDifferent": "AllDifferent"}

# (_ op idx...) -> constructor and how indices map to its parameters (names of the FormulaManager
# parameters in *call order after the term*)
UNDERSCORE = {
    "extract": ("BVExtract", "high-then-low: (_ extract i j) -> BVExtract(x, start=j, end=i)"),
    "zero_extend": ("BVZExt", "increase"), "sign_extend": ("BVSExt", "increase"),
    "rotate_left": ("BVRol", "steps"), "rotate_right": ("BVRor", "steps"),
    "repeat": ("BVRepeat", "count"),
}

COMMANDS_ACCEPTED_TODAY = {
    "assert", "check-sat", "check-sat-assuming", "declare-const", "declare-fun", "declare-sort",
    "define-fun", "define-funs-rec", "define-fun-rec", "define-sort", "echo", "exit",
    "get-assertions", "get-assignment", "get-info", "get-model", "get-option", "get-proof",
    "get-unsat-assumptions", "get-unsat-core", "get-value", "pop", "push", "reset",
    "reset-assertions", "set-logic", "set-option", "set-info", "assert-soft", "check-allsat",
    "get-objectives", "maximize", "minimize", "minmax", "maxmin", "load-objective-model",
}
