"""Portfolio: get_value after a solve in which every member failed.
Expected: an error (there is no model).  Observed on the pinned tree: the winner of an *earlier* race is still
recorded, the request goes to the pipe of the failed race, nobody answers -> the call blocks (until the collector
closes the parent's copy of the child end, then EOFError)."""
import signal, sys
from pysmt.shortcuts import Symbol, Not, And, get_env
from pysmt.logics import QF_BOOL
from pysmt.solvers.solver import IncrementalTrackingSolver
from pysmt.solvers.eager import EagerModel
from pysmt.solvers.options import SolverOptions
from pysmt.solvers.portfolio import Portfolio


class Opt(SolverOptions):
    def __call__(self, solver):
        pass


class Flaky(IncrementalTrackingSolver):
    LOGICS = [QF_BOOL]
    OptionsClass = Opt

    def __init__(self, environment, logic, **options):
        IncrementalTrackingSolver.__init__(self, environment=environment, logic=logic, **options)
        self.fs = []

    def _reset_assertions(self): self.fs = []
    def _add_assertion(self, formula, named=None): self.fs.append(formula); return formula
    def _push(self, levels=1): pass
    def _pop(self, levels=1): pass
    def _exit(self): pass

    def _solve(self, assumptions=None):
        f = And(self.fs)
        if any(s.symbol_name() == "boom" for s in f.get_free_variables()):
            raise RuntimeError("member cannot handle this")
        return True

    def get_value(self, item):
        return get_env().formula_manager.TRUE()

    def get_model(self):
        return EagerModel({}, self.environment)


env = get_env()
env.factory._all_solvers["flaky"] = Flaky
a, boom = Symbol("a"), Symbol("boom")
p = Portfolio(["flaky", "flaky"], env, QF_BOOL)
p.add_assertion(a)
assert p.solve() is True
print("first solve: sat, value of a:", p.get_value(a))
p.add_assertion(boom)
try:
    p.solve()
    print("second solve returned"); sys.exit(2)
except RuntimeError as ex:
    print("second solve: every member failed ->", type(ex).__name__)


def on_alarm(sig, frm):
    print("get_value after the failed solve BLOCKS (no error after 5 s)")
    sys.exit(1)
signal.signal(signal.SIGALRM, on_alarm)
signal.alarm(5)
try:
    v = p.get_value(a)
    print("get_value returned", v, "- a value although the last solve failed")
    sys.exit(1)
except Exception as ex:
    print("get_value raises", type(ex).__name__, ex)
    sys.exit(0 if isinstance(ex, ValueError) else 1)
