#!/venv/bin/python
"""Reproductions (against the real pySMT in /repo, or any tree on PYTHONPATH) of the defects the text-side and
solver-side interpreted rules found.  Not a check: these *run* pySMT; they exist to tell a genuine defect from a
false alarm.  Each line says DEFECT-PRESENT / DEFECT-ABSENT.
    PYTHONPATH=/repo[:/tmp/z3only] /venv/bin/python findings/repro_text.py"""
import signal
import sys
import tempfile
import os
from io import StringIO

from pysmt.shortcuts import Symbol, And, Or, Not, Implies, Equals, Int, LT, String, get_env, reset_env
from pysmt.typing import INT, STRING
from pysmt.smtlib.script import smtlibscript_from_formula
from pysmt.smtlib.parser import SmtLibParser
from pysmt.parsing import parse


def show(fid, present, detail):
    print("%s %-8s %s" % ("DEFECT-PRESENT" if present else "DEFECT-ABSENT ", fid, detail))


def export(f):
    b = StringIO()
    smtlibscript_from_formula(f).serialize(b, daggify=False)
    return b.getvalue()


a = Symbol("a")
# F-C07-1 (known finding): names SMT-LIB cannot express
for nm in ("and", "true", "p|q"):
    t = export(And(Symbol(nm), Or(Symbol(nm), a)))
    show("F-C07-1", "(declare-fun %s " % nm in t or "\\|" in t, "Symbol(%r) exported as: %s" % (nm, [l for l in t.splitlines() if l.startswith("(declare-fun") and nm.split("|")[0] in l.split()[1]][0]))
# F-C07-2 (fixed 60ab9b8): reserved words unquoted
t = export(And(Symbol("let"), a))
show("F-C07-2", "(declare-fun let " in t, "Symbol('let') exported as: %s" % [l for l in t.splitlines() if "let" in l][0])
# F-C09-1 (fixed 1d148eb): HR printer does not quote names outside its own grammar
x, y, w = Symbol("a1", INT), Symbol("b1", INT), Symbol("a1-b1", INT)
f = Equals(w, Int(0))
g = parse(f.serialize())
show("F-C09-1", g is not f, "%s read back as %s" % (f.serialize(), g.serialize()))
# F-C09-2 (fixed 9897acb): keyword-named symbols
f = And(Symbol("True"), a)
try:
    g = parse(f.serialize())
    show("F-C09-2", g is not f, "%s read back as %s" % (f.serialize(), g.serialize()))
except Exception as e:
    show("F-C09-2", True, "%s rejected: %s" % (f.serialize(), e))
# F-C09-3 (fixed a68e889): string constant with a quote
f = Equals(Symbol("st", STRING), String('a"b'))
try:
    show("F-C09-3", parse(f.serialize()) is not f, f.serialize())
except Exception as e:
    show("F-C09-3", True, "%s rejected: %s" % (f.serialize(), e))
# F-C09-4 (fixed 03f630e): declare-const / define-fun parameters re-serialised illegally
s = SmtLibParser().get_script(StringIO("(declare-const k Int)(assert (< k 0))"))
b = StringIO()
s.serialize(b, daggify=False)
try:
    SmtLibParser().get_script(StringIO(b.getvalue()))
    show("F-C09-4", False, b.getvalue().splitlines()[0])
except Exception as e:
    show("F-C09-4", True, "%s -> %s" % (b.getvalue().splitlines()[0], e))
# F-C16-2 (fixed 5dae299): MaxSMT goal created inside a popped level
s = SmtLibParser().get_script(StringIO("(declare-fun a () Bool)(push 1)(assert-soft a :id g1)(pop 1)"))
try:
    s.get_last_formula(return_optimizations=True)
    show("F-C16-2", False, "get_last_formula ok")
except KeyError as e:
    show("F-C16-2", True, "get_last_formula raises KeyError(%s)" % e)
# F-C17-3 (fixed 715bdea): reply synchronisation after get-value
fake = os.path.join(tempfile.mkdtemp(), "fake_solver.py")
open(fake, "w").write('''import sys
for line in iter(sys.stdin.readline, ""):
    line = line.strip()
    if not line: continue
    if line.startswith("(check-sat"): print("sat")
    elif line.startswith("(get-value"): print("((x 1))")
    elif line.startswith("(exit"): break
    else: print("success")
    sys.stdout.flush()
''')
from pysmt.smtlib.solver import SmtLibSolver
from pysmt.logics import QF_LIA
xs = Symbol("x", INT)
sv = SmtLibSolver([sys.executable, fake], get_env(), QF_LIA)
sv.add_assertion(LT(xs, Int(3)))
sv.solve()
sv.get_value(xs)
try:
    sv.push()
    show("F-C17-3", False, "get_value(x); push() ok")
except Exception as e:
    show("F-C17-3", True, "get_value(x); push() -> %s: %s" % (type(e).__name__, e))
# F-C08-3 (known finding): a quoted symbol spelled like a literal shadows the literal
sc_ = SmtLibParser().get_script(StringIO("(declare-fun x () Int)(declare-fun |2| () Int)(assert (= x (+ 1 2)))"))
fl = sc_.get_last_formula()
show("F-C08-3", len(fl.get_free_variables()) == 2, "(assert (= x (+ 1 2))) after (declare-fun |2| () Int) read as %s over %s"
     % (fl.serialize(), sorted(v.symbol_name() for v in fl.get_free_variables())))
# F-C07-3 (fixed 3766739): parametric sort declared once per instance
from pysmt.typing import Type, BOOL as _B
_P = Type("Pair", 1)
t = export(And(Equals(Symbol("pa", _P(INT)), Symbol("pc", _P(INT))), Equals(Symbol("pb", _P(_B)), Symbol("pd", _P(_B)))))
show("F-C07-3", t.count("(declare-sort Pair 1)") != 1, "declare-sort Pair written %d time(s)" % t.count("(declare-sort Pair 1)"))
# F-C18-2 (known finding): MaxSMT with the binary strategy diverges (needs z3)
from pysmt.shortcuts import Optimizer
from pysmt.optimization.goal import MaxSMTGoal
b_, c_ = Symbol("b"), Symbol("c")
for name in ("z3_sua", "z3_incr"):
    if name not in get_env().factory.all_optimizers():
        print("skip", name)
        continue
    g = MaxSMTGoal()
    g.add_soft_clause(a, 2); g.add_soft_clause(b_, 3); g.add_soft_clause(c_, 1)
    with Optimizer(name=name) as opt:
        opt.add_assertion(Or(Not(a), Not(b_))); opt.add_assertion(Implies(c_, a))

        def on_alarm(*_a):
            raise TimeoutError()
        signal.signal(signal.SIGALRM, on_alarm)
        signal.alarm(6)
        try:
            r = opt.optimize(g, strategy="binary")
            show("F-C18-2", False, "%s binary -> %s" % (name, r[1]))
        except TimeoutError:
            show("F-C18-2", True, "%s: optimize(MaxSMT, strategy='binary') still running after 6 s (linear returns 3)" % name)
        finally:
            signal.alarm(0)
