"""Solver.is_sat (incremental mode) whose query fails leaves the level it opened.
is_sat pushes a level, asserts the formula, solves, and marks the level for removal (pending_pop).  When the
assertion is rejected (operator the solver cannot convert, non-Boolean term) or solve() raises (unknown), the mark is
never set: the level - for a failing solve() also the formula - stays.
Expected (C15 / C16): later calls behave as if the failing call had never been made.
Observed on the pinned tree: push(); add_assertion(a); is_sat(<rejected>) raises; pop()  removes the leaked level, a
stays asserted, and is_sat(Not(a)) is False instead of True.
Exit 1 = defect present, 0 = absent."""
import sys
from pysmt.shortcuts import Symbol, Not, And, Int, get_env
from pysmt.logics import QF_BOOL
from pysmt.solvers.solver import IncrementalTrackingSolver
from pysmt.solvers.options import SolverOptions
from pysmt.exceptions import ConvertExpressionError, SolverReturnedUnknownResultError
from pysmt.decorators import clear_pending_pop


class Opt(SolverOptions):
    def __call__(self, solver):
        pass


class TT(IncrementalTrackingSolver):
    """Truth-table back-end over the symbols a, b; rejects the symbol 'bad', answers unknown on 'hard'."""
    LOGICS = [QF_BOOL]
    OptionsClass = Opt

    def __init__(self, environment, logic, **options):
        IncrementalTrackingSolver.__init__(self, environment=environment, logic=logic, **options)
        self.native = [[]]

    @clear_pending_pop
    def _reset_assertions(self): self.native = [[]]

    @clear_pending_pop
    def _add_assertion(self, formula, named=None):
        if any(s.symbol_name() == "bad" for s in formula.get_free_variables()):
            raise ConvertExpressionError(message="cannot convert", expression=formula)
        self.native[-1].append(formula)
        return formula

    @clear_pending_pop
    def _push(self, levels=1):
        for _ in range(levels): self.native.append([])

    @clear_pending_pop
    def _pop(self, levels=1):
        for _ in range(levels): self.native.pop()

    def _exit(self): pass

    @clear_pending_pop
    def _solve(self, assumptions=None):
        f = And([g for fr in self.native for g in fr] + list(assumptions or []))
        fv = sorted(f.get_free_variables(), key=lambda s: s.symbol_name())
        if any(s.symbol_name() == "hard" for s in fv):
            raise SolverReturnedUnknownResultError()
        from itertools import product
        from pysmt.shortcuts import Bool
        return any(f.substitute(dict(zip(fv, map(Bool, v)))).simplify().is_true()
                   for v in product([False, True], repeat=len(fv)))


def scenario(failing):
    env = get_env()
    s = TT(env, QF_BOOL)
    a = Symbol("a")
    s.push()
    s.add_assertion(a)
    if failing is not None:
        try:
            s.is_sat(failing)
            return "the query did not fail"
        except (ConvertExpressionError, SolverReturnedUnknownResultError):
            pass
    s.pop()
    return (s.is_sat(Not(a)), [str(x) for x in s.assertions], len(s._backtrack_points), len(s.native))


want = scenario(None)
bad = 0
for name, q in (("rejected assertion", Symbol("bad")), ("unknown verdict", Symbol("hard"))):
    got = scenario(q)
    print("%-20s: %s (without the failing call: %s)" % (name, got, want))
    bad += got != want
print("DEFECT-PRESENT is_sat-leak" if bad else "DEFECT-ABSENT is_sat-leak")
sys.exit(1 if bad else 0)
