"""CNF converters: the complement of an atom is built as Not(atom).simplify(); for an atom the simplifier can fold into a compound
formula - a read from an array value whose default / entry is a formula - the "literal" put into the clause is a compound formula.
cnf(Select(Array(INT, a & b), 1) -> p) = { {!(a & b), p} }: equisatisfiable, but not a conjunction of clauses of literals.
Exit 1 = defect present."""
import sys
from pysmt.shortcuts import Symbol, And, Implies, Select, Array, Int
from pysmt.typing import INT
from pysmt.rewritings import CNFizer, PolarityCNFizer

a, b, p = Symbol("a"), Symbol("b"), Symbol("p")
f = Implies(Select(Array(INT, And(a, b)), Int(1)), p)
bad = 0
for cls in (CNFizer, PolarityCNFizer):
    for clause in cls().convert(f):
        for lit in clause:
            atom = lit.arg(0) if lit.is_not() else lit
            if atom.is_and() or atom.is_or() or atom.is_not() or atom.is_implies() or atom.is_iff():
                bad += 1
                print("%s: clause element %s is not a literal" % (cls.__name__, lit))
print("DEFECT-PRESENT cnf-compound-complement" if bad else "DEFECT-ABSENT cnf-compound-complement")
sys.exit(1 if bad else 0)
