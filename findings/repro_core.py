"""Reproductions (not checks) — see README.md.  Run: /venv/bin/python findings/repro_core.py"""
import io, os, signal, sys, warnings
warnings.simplefilter("ignore")
sys.path.insert(0, "/repo")
from pysmt.shortcuts import *          # noqa
from pysmt.typing import *             # noqa
from pysmt.environment import Environment, get_env, reset_env
from pysmt.rewritings import nnf, Ackermannizer
from pysmt.smtlib.parser import SmtLibParser
from pysmt.oracles import get_logic
from pysmt.logics import QF_LIA, QF_UFLIA


def show(fid, present, detail):
    print("%s %-8s %s" % ("DEFECT-PRESENT" if present else "DEFECT-ABSENT ", fid, detail))


def attempt(fid, fn):
    try:
        present, detail = fn()
    except BaseException as ex:      # a crash of the scenario itself is reported, not hidden
        present, detail = True, "scenario raised %s: %s" % (type(ex).__name__, str(ex)[:120])
    show(fid, present, detail)


def c01_1():
    r = Div(Int(10**17 + 1), Int(3)).simplify().constant_value()
    return r != (10**17 + 1) // 3, "Div(10^17+1, 3) -> %s" % r

def c01_2():
    r = Equals(Array(INT, Int(0)), Array(INT, Int(1))).simplify()
    return r.is_true(), "Equals(K(0), K(1)).simplify() -> %s" % r

def c01_3():
    a = StrCharAt(String("abc"), Int(-2)).simplify().constant_value()
    b = StrIndexOf(String("abc"), String("c"), Int(-1)).simplify().constant_value()
    c = StrSubstr(String("abc"), Int(-2), Int(1)).simplify().constant_value()
    return (a, b, c) != ("", -1, ""), "str.at/indexof/substr with negative index -> %r %r %r" % (a, b, c)

def c01_4():
    f = Pow(Plus(Int(1), Int(2)), Int(2))
    return f.get_type() != f.simplify().get_type(), "Pow(1+2,2): %s simplifies to %s" % (f.get_type(), f.simplify().get_type())

def c03_1():
    try:
        f = Pow(Symbol("c03_b"), TRUE())
        return True, "Pow(Bool, TRUE) accepted with type %s" % f.get_type()
    except Exception as ex:
        return False, "rejected: %s" % type(ex).__name__

def c04_1():
    reset_env()
    try:
        Int(1.0); fresh = "accepted"
    except Exception:
        fresh = "rejected"
    reset_env()
    Int(1)
    try:
        Int(1.0); later = "accepted"
    except Exception:
        later = "rejected"
    return fresh != later, "Int(1.0): fresh env %s, after Int(1) %s" % (fresh, later)

def parse(text):
    return SmtLibParser().get_script(io.StringIO(text)).get_last_formula()

def c08_1():
    reset_env()
    f = parse("(declare-fun x () Int)(declare-fun y () Int)(assert (let ((x y) (y x)) (< x y)))")
    return f.serialize() != "(y < x)", "parallel let read as %s" % f.serialize()

def c08_2():
    reset_env()
    try:
        f = parse("(declare-fun s () String)(assert (= s foo))")
        return True, "undeclared symbol read as %s" % f.serialize()
    except Exception as ex:
        return False, "rejected: %s" % type(ex).__name__

def c08_3():
    reset_env()
    f = parse("(define-fun f () Int 5)(assert (let ((f 3)) (= f 3)))")
    return f.serialize() != "(3 = 3)" and not f.is_true(), "let-bound f read as %s" % f.serialize()

def c10_1():
    reset_env()
    a, b, c = Symbol("a"), Symbol("b"), Symbol("c")
    r = nnf(Not(Ite(a, b, c)))
    return r.is_not() and not r.arg(0).is_symbol(), "nnf(!ite) -> %s" % r.serialize()

def has_uf(n):
    seen, st = set(), [n]
    while st:
        cur = st.pop()
        if cur in seen:
            continue
        seen.add(cur)
        if cur.is_function_application():
            return True
        st += cur.args()
    return False

def c11_1():
    reset_env()
    x, y = Symbol("x", INT), Symbol("y", INT)
    f = Symbol("f", FunctionType(INT, [INT])); g = Symbol("g", FunctionType(INT, [INT]))
    phi = Equals(Function(f, [Plus(Function(g, [x]), Int(1))]), Function(f, [Plus(Function(g, [y]), Int(1))]))
    r = Ackermannizer().do_ackermannization(phi)
    return has_uf(r), "ackermannized: %s" % r.serialize()

def c12_1():
    reset_env()
    S = Type("MySort")
    ts = get_env().typeso.get_types(Equals(Array(S, Int(0)), Array(S, Int(1))), custom_only=True)
    return len(ts) == 0, "custom sorts of K:MySort->Int equality: %s" % ts

def c13_1():
    reset_env()
    x = Symbol("x", INT)
    th = get_env().theoryo.get_theory(GT(StrLength(IntToStr(x)), Int(0)))
    return not th.strings, "theory of str.len(int.to.str x) has strings=%s" % th.strings

def c13_2():
    reset_env()
    th = get_env().theoryo.get_theory(ForAll([Symbol("bq", BVType(8))], Symbol("p")))
    return not th.bit_vectors, "theory of (forall bv. p) has bit_vectors=%s" % th.bit_vectors

def c15_1():
    reset_env()
    x, y = Symbol("x", INT), Symbol("y", INT)
    g = LE(Plus(x, y), Int(3))
    try:
        g.substitute({x: TRUE()})
    except Exception:
        pass
    try:
        r = g.substitute({x: Int(1)})
        return False, "later substitute -> %s" % r.serialize()
    except Exception as ex:
        return True, "later well-typed substitute raises %s" % type(ex).__name__

def c15_2():
    def run(fail):
        env = Environment(); m = env.formula_manager
        x = m.Symbol("x", INT); ps = [m.Symbol("p%d" % i) for i in range(12)]
        if fail:
            for k in range(3):
                try:
                    m.Plus(x, ps[k])
                except Exception:
                    pass
        f = m.And(m.Or(ps[3], ps[1]), m.Or(ps[1], ps[3]), ps[7], ps[2], m.Not(ps[9]))
        from pysmt.printers import HRSerializer
        return HRSerializer(env).serialize(env.simplifier.simplify(f))
    a, b = run(False), run(True)
    return a != b, "twin %s / after failures %s" % (a, b)

def c20_1():
    reset_env()
    bx, cnd = Symbol("bx", BVType(8)), Symbol("cnd")
    r = bx
    for _ in range(20000):
        r = Ite(cnd, r, bx)
    try:
        BVNot(r)
        return False, "BVNot over 20000 nested ITE built"
    except RecursionError:
        return True, "BVNot over 20000 then-nested ITE -> RecursionError"

def z3_solver():
    reset_env()
    get_env().factory.add_generic_solver("z3w", ["/usr/bin/z3", "-in", "-smt2"], [QF_UFLIA, QF_LIA])
    return Solver(name="z3w", logic=QF_LIA)

def c17_1():
    x = None
    with z3_solver() as s:
        x = Symbol("x", INT)
        s.push(2); s.add_assertion(Equals(x, Int(3))); s.pop(1)
        try:
            s.pop(1); s.add_assertion(Equals(x, Int(5)))
            return False, "push(2); pop; pop accepted"
        except IndexError as ex:
            return True, "push(2); pop; pop; assert -> IndexError"

def c17_2():
    with z3_solver() as s:
        x, y = Symbol("x", INT), Symbol("y", INT)
        s.add_assertion(Equals(x, Int(3))); s.push(); s.add_assertion(Equals(y, Int(4)))
        s.solve(); m = s.get_model()
        v = m.get_value(x).constant_value()
        return v != 3, "solver says x=3, model says x=%s" % v

def c19_1():
    reset_env()
    for n in ("bad1", "bad2"):
        get_env().factory.add_generic_solver(n, ["/bin/cat", "/dev/null"], [QF_LIA])
    def onalarm(signum, frame):
        raise TimeoutError()
    signal.signal(signal.SIGALRM, onalarm); signal.alarm(8)
    devnull = os.open(os.devnull, os.O_WRONLY); saved = os.dup(2); os.dup2(devnull, 2)
    try:
        with Portfolio(["bad1", "bad2"], logic=QF_LIA, incremental=False, generate_models=False) as p:
            p.add_assertion(GT(Symbol("x", INT), Int(3)))
            p.solve()
        return False, "returned"
    except TimeoutError:
        return True, "all members dead -> solve() still blocked after 8 s"
    except Exception as ex:
        return False, "reported %s" % type(ex).__name__
    finally:
        signal.alarm(0); os.dup2(saved, 2)


if __name__ == "__main__":
    for fid, fn in [("F-C01-1", c01_1), ("F-C01-2", c01_2), ("F-C01-3", c01_3), ("F-C01-4", c01_4),
                    ("F-C03-1", c03_1), ("F-C04-1", c04_1), ("F-C08-1", c08_1), ("F-C08-2", c08_2),
                    ("F-C08-3", c08_3), ("F-C10-1", c10_1), ("F-C11-1", c11_1), ("F-C12-1", c12_1),
                    ("F-C13-1", c13_1), ("F-C13-2", c13_2), ("F-C15-1", c15_1), ("F-C15-2", c15_2),
                    ("F-C20-1", c20_1), ("F-C17-1", c17_1), ("F-C17-2", c17_2), ("F-C19-1", c19_1)]:
        attempt(fid, fn)


def f_c11_2():
    from pysmt.shortcuts import And, Symbol, FALSE, reset_env
    from pysmt.rewritings import cnf_as_set
    reset_env()
    a = Symbol("a")
    r = cnf_as_set(And(a, FALSE()))
    bad = r == frozenset([frozenset([a])])
    print("%s F-C11-2  cnf(a & False) -> %s" % ("DEFECT-PRESENT" if bad else "DEFECT-ABSENT ", r))


f_c11_2()
