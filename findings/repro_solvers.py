"""Reproductions (not checks) needing solver bindings.  Run: PYTHONPATH=/repo python3-vt findings/repro_solvers.py"""
import warnings
warnings.simplefilter("ignore")
from pysmt.shortcuts import *          # noqa
from pysmt.typing import *             # noqa
from pysmt.logics import QF_LIA
from pysmt.environment import get_env
from pysmt.optimization.goal import MinimizationGoal


def show(fid, present, detail):
    print("%s %-8s %s" % ("DEFECT-PRESENT" if present else "DEFECT-ABSENT ", fid, detail))


x, y = Symbol("x", INT), Symbol("y", INT)

# F-C16-1: a one-shot query must leave the assertions as it found them
for name in ("cvc5", "z3"):
    if name not in get_env().factory.all_solvers():
        print("skip", name); continue
    with Solver(name=name, logic=QF_LIA) as s:
        s.add_assertion(GT(x, Int(3)))
        r1 = s.is_sat(LT(x, Int(2)))
        r2 = s.solve()
        show("F-C16-1", r2 is not True, "%s: is_sat(x<2) under x>3 -> %s, then solve() -> %s" % (name, r1, r2))

# F-C18-1: lexicographic optimisation must restore the assertion stack
f = And(GE(x, Int(0)), LE(x, Int(10)), GE(y, Int(0)), LE(y, Int(10)), GE(Plus(x, y), Int(3)))
for name in ("z3_sua", "z3_incr"):
    if name not in get_env().factory.all_optimizers():
        print("skip", name); continue
    with Optimizer(name=name) as opt:
        opt.add_assertion(f)
        before = list(opt._backtrack_points)
        res = opt.lexicographic_optimize([MinimizationGoal(x), MinimizationGoal(y)])
        after = list(opt._backtrack_points)
        show("F-C18-1", before != after, "%s: optimum %s, backtrack points %s -> %s" % (name, res[1], before, after))
