"""propagate_toplevel captures the representative of a class of equal variables under its own binder.
(y = x) & (forall x . x u<= y)   [x, y : BV2; x is the older symbol, hence the representative of {x, y}]
is rewritten by replacing y with x everywhere - also under `forall x` - to (y = x) & (forall x . x u<= x), i.e. (y = x):
under x = y = 0 the input is false, the result true.  Exit 1 = defect present."""
import sys
from pysmt.shortcuts import Symbol, And, Equals, ForAll, BVULE, BV
from pysmt.typing import BVType
from pysmt.rewritings import propagate_toplevel

x, y = Symbol("x", BVType(2)), Symbol("y", BVType(2))
f = And(Equals(y, x), ForAll([x], BVULE(x, y)))
bad = 0
for simp in (True, False):
    r = propagate_toplevel(f, do_simplify=simp)
    for xv in range(4):
        for yv in range(4):
            want = (yv == xv) and all(k <= yv for k in range(4))
            g = r.substitute({x: BV(xv, 2), y: BV(yv, 2)}).simplify()
            # the only quantifier left ranges over 4 values
            vals = []
            for k in range(4):
                h = g
                while h.is_quantifier() or any(a.is_quantifier() for a in h.args()):
                    def expand(t):
                        if t.is_forall():
                            return And([t.arg(0).substitute({t.quantifier_vars()[0]: BV(j, 2)}) for j in range(4)])
                        return t
                    h = expand(h) if h.is_quantifier() else And([expand(a) for a in h.args()])
                    h = h.simplify()
                vals.append(h)
            got = vals[0].is_true()
            if got != want:
                bad += 1
                print("do_simplify=%s x=%d y=%d: input %s, result %s  [%s]" % (simp, xv, yv, want, got, r))
print("DEFECT-PRESENT propagate-capture" if bad else "DEFECT-ABSENT propagate-capture")
sys.exit(1 if bad else 0)
