"""FormulaManager.new_fresh_symbol advances its counter before the symbol is created.
A rejected request (a type that is not a pySMT type, a template without a %d) leaves the counter advanced, so
the next fresh symbol has another name than in an environment where the rejected call was never made (C15).
Exit 1 = defect present."""
import sys
from pysmt.environment import Environment
from pysmt.typing import INT


def names(with_failure):
    mgr = Environment().formula_manager
    if with_failure:
        try:
            mgr.new_fresh_symbol("Int")          # not a type
            return "not rejected"
        except Exception as ex:
            print("rejected with", type(ex).__name__)
    return [mgr.new_fresh_symbol(INT).symbol_name() for _ in range(2)]


a, b = names(False), names(True)
print("fresh environment:", a, " after a rejected request:", b)
print("DEFECT-PRESENT fresh-counter" if a != b else "DEFECT-ABSENT fresh-counter")
sys.exit(1 if a != b else 0)
