#!/bin/bash
# mt.sh <mutant-id> [PROP] [RULE]  - apply a seeded patch to a scratch worktree, run one check against it, remove the worktree
m=$1; p=${2:-${m%%-*}}; r=$3
wt=/tmp/mt_$m
git -C /repo worktree remove --force $wt >/dev/null 2>&1
git -C /repo worktree add -q $wt HEAD || exit 3
( cd $wt && (git apply /verif/seeded/$m/patch.diff 2>/dev/null || git apply --3way /verif/seeded/$m/patch.diff) ) || { echo "patch does not apply"; git -C /repo worktree remove --force $wt; exit 3; }
cd /verif
SA_REPO=$wt /venv/bin/python -m sa check $p --tier ${TIER:-quick} --no-evidence ${r:+--rule $r} 2>&1 | grep -v "^WARNING" | tail -${TAIL:-12}
git -C /repo worktree remove --force $wt
