#!/venv/bin/python
"""Behaviour-preserving variants (negative controls).
  collect <n> [L|H ...]   take the refactoring a sub-agent left in /tmp/ref_<n>/REFACTOR/<L|H>/patch.diff, confirm
                          that it applies, compiles and keeps the pinned suite green, and store it under
                          /verif/refactors/ref<n>-<L|H>/.
  run [ids...]            apply each stored patch to a scratch worktree and run every check against it
                          (SA_REPO=<worktree>).  A check that exits non-zero on such a tree is a FALSE ALARM
                          (exit 1) or a brittle anchor (exit 2); both are defects of the checker.
Nothing is ever applied to /repo by this tool."""
import json
import os
import shutil
import sys
from concurrent.futures import ThreadPoolExecutor

sys.path.insert(0, os.path.dirname(os.path.abspath(__file__)))
from mutants import sh, VERIF, PY, PROPS, first_lines  # noqa


def collect(n, which):
    wt = "/tmp/ref_%s" % n
    for x in which:
        src = os.path.join(wt, "REFACTOR", x)
        if not os.path.exists(os.path.join(src, "patch.diff")):
            print("no refactor %s/%s" % (n, x))
            continue
        rid = "ref%s-%s" % (n, x)
        sh("git checkout -q -- pysmt", cwd=wt)
        rc, o = sh("git apply REFACTOR/%s/patch.diff" % x, cwd=wt)
        if rc != 0:
            print("%s: patch does not apply: %s" % (rid, o[-300:]))
            continue
        rcs, os_ = sh("%s -m pytest -q -p no:cacheprovider -n 8 --timeout=900 2>&1 | tail -1" % PY, cwd=wt,
                      env={"PYTHONPATH": wt})
        rcz, oz = sh("%s -m pytest -q -p no:cacheprovider -n 8 --timeout=900 2>&1 | tail -1" % PY, cwd=wt,
                     env={"PYTHONPATH": wt + ":/tmp/z3only"})
        rcc, oc = sh("%s -m compileall -q pysmt" % PY, cwd=wt)
        sh("git checkout -q -- pysmt", cwd=wt)
        sh("find . -name __pycache__ -prune -exec rm -rf {} +", cwd=wt)
        ok = "376 passed" in os_ and "failed" not in os_ and "failed" not in oz and rcc == 0
        print("%s: suite: %s | with z3: %s -> %s" % (rid, os_.strip()[-50:], oz.strip()[-50:], "KEEP" if ok else "REJECT"))
        if not ok:
            continue
        dst = os.path.join(VERIF, "refactors", rid)
        os.makedirs(dst, exist_ok=True)
        shutil.copy(os.path.join(src, "patch.diff"), os.path.join(dst, "patch.diff"))
        if os.path.exists(os.path.join(src, "notes.md")):
            shutil.copy(os.path.join(src, "notes.md"), os.path.join(dst, "notes.md"))
        meta = {"id": rid, "origin": "independent sub-agent asked for a behaviour-preserving refactoring of one area, "
                                    "given a scratch worktree and nothing from /verif",
                "confirmed": {"suite_with_patch": os_.strip()[-80:], "suite_with_z3": oz.strip()[-80:], "compiles": rcc == 0},
                "summary": first_lines(os.path.join(src, "notes.md")) if os.path.exists(os.path.join(src, "notes.md")) else ""}
        json.dump(meta, open(os.path.join(dst, "meta.json"), "w"), indent=1)


def run_one(rid):
    d = os.path.join(VERIF, "refactors", rid)
    wt = "/tmp/rrun_%s" % rid
    sh("git -C /repo worktree remove --force %s" % wt)
    rc, o = sh("git -C /repo worktree add -q %s HEAD" % wt)
    if rc != 0:
        return rid, {"error": o[-200:]}
    try:
        rc, o = sh("git apply %s" % os.path.join(d, "patch.diff"), cwd=wt)
        if rc != 0:
            # the tree moved on since the variant was recorded (fix: commits): three-way merge
            rc, o = sh("git apply --3way %s" % os.path.join(d, "patch.diff"), cwd=wt)
        if rc != 0:
            return rid, {"error": "patch does not apply on current HEAD: " + o[-200:]}
        res = {}
        for p in PROPS:
            rc, o = sh("%s -m sa check %s --tier quick --no-evidence" % (PY, p), cwd=VERIF, env={"SA_REPO": wt})
            if rc != 0:
                lines = [l for l in o.splitlines() if ": rule " in l or l.startswith(("VIOLATION", "ANALYSIS-ERROR"))]
                res[p] = {"rc": rc, "lines": lines[:8]}
            else:
                # weaker verdicts are allowed, but record them
                last = o.strip().splitlines()[-1]
                res.setdefault("_summaries", {})[p] = last
        return rid, res
    finally:
        sh("git -C /repo worktree remove --force %s" % wt)


def run(ids):
    if not ids:
        ids = sorted(os.listdir(os.path.join(VERIF, "refactors")))
    bad = 0
    with ThreadPoolExecutor(max_workers=5) as ex:
        for rid, res in ex.map(run_one, ids):
            mp = os.path.join(VERIF, "refactors", rid, "meta.json")
            meta = json.load(open(mp))
            alarms = dict((k, v) for k, v in res.items() if not k.startswith("_"))
            meta["checks_run"] = "all 20 quick checks with SA_REPO=<scratch worktree with the patch applied>"
            meta["alarms"] = alarms
            meta["summaries"] = res.get("_summaries", {})
            json.dump(meta, open(mp, "w"), indent=1)
            if alarms:
                bad += 1
                print("%-8s ALARMS" % rid)
                for p, v in sorted(alarms.items()):
                    print("   %s rc=%s" % (p, v.get("rc") if isinstance(v, dict) else v))
                    for l in (v.get("lines", []) if isinstance(v, dict) else []):
                        print("      " + l[:230])
            else:
                print("%-8s quiet" % rid)
    return bad


if __name__ == "__main__":
    cmd = sys.argv[1]
    if cmd == "collect":
        collect(sys.argv[2], sys.argv[3:] or ["L", "H"])
    elif cmd == "run":
        sys.exit(1 if run(sys.argv[2:]) else 0)
