#!/venv/bin/python
"""Regenerates MANIFEST.json from the rule modules (EXPLANATION / NOT_DECIDED) so the manifest
cannot drift from what the checks decide."""
import importlib
import json
import os
import sys

HERE = os.path.dirname(os.path.dirname(os.path.abspath(__file__)))
sys.path.insert(0, HERE)

PY = "/venv/bin/python"
TECH = {
    "C01": "handler-table resolution + path-sensitive abstract interpretation of the simplifier handlers (rewrite-rule extraction vs identity/fold tables), who-may-call",
    "C02": "CFG must-pass-through with branch polarity on get_value; decision-table extraction; fold extraction shared with C01",
    "C03": "who-may-call + CFG dominance on create_node; sort-kind abstract interpretation of the typing rules vs a signature table",
    "C04": "who-may-write over the package, CFG pairing on create_node, constructor/accessor payload-layout agreement",
    "C05": "set-relational normal form of the binder filter, key-provenance of the lookup order, exhaustive dispatch",
    "C06": "dispatch-table extraction of infix methods; symbolic expansion of derived constructors with truth tables / order cases",
    "C07": "output-template extraction from both printers vs SMT-LIB name table, sibling cross-check, taint to quote(), CFG ordering",
    "C08": "token-table extraction vs reference, index-order dataflow, bind/unbind pairing, fallback (error-discipline) rule",
    "C09": "composition of printer templates with parser token table and constructor summaries; lexer-rule simulation for the HR syntax",
    "C10": "contradiction rule on polarity case sets; Boolean-leaf expansion of handlers decided by truth table",
    "C11": "clause-set extraction decided by truth table; taint of raw arguments in Ackermannization",
    "C12": "exhaustive dispatch; provenance-domain interpretation of transfer functions; payload-sort cross-check between sibling oracles",
    "C13": "feature-coverage table rule over TheoryOracle handlers; exhaustive flag-group check of the theory order; relational normal form of selection comprehensions",
    "C14": "memo-key completeness / one-shot construction sites; freshness dataflow on cached Theory objects; purity of singleton handlers",
    "C15": "CFG with exceptional edges: scratch state restored on raise; register-after-check ordering in create_node",
    "C16": "decorator discipline over all solver classes; push/pop/reset pairing by pattern + CFG dominance",
    "C17": "level-mirroring and frame-read rules, send/read pairing on the CFG, verdict decision table",
    "C18": "push/pop bracket: CFG must-pass-through per open call; comparator table vs reference",
    "C19": "structural bounded-wait rule on the receive loop; single-message discipline of members",
    "C20": "self-recursion / call-graph cycle detection over the formula core; compute-once guards in DagWalker",
}

NA = []   # every property has at least one clause decided statically (see DESIGN.md section 9)


def main():
    checks = []
    for i in range(1, 21):
        pid = "C%02d" % i
        mod = importlib.import_module("sa.rules.%s" % pid.lower())
        checks.append({
            "property_id": pid,
            "quick_cmd": "%s -m sa check %s --tier quick" % (PY, pid),
            "thorough_cmd": "%s -m sa check %s --tier thorough" % (PY, pid),
            "evidence_file": "/verif/evidence/%s.json" % pid,
            "replay_cmd_template": "%s -m sa replay {path}" % PY,
            "engine": "sa",
            "technique": "static analysis: " + TECH[pid],
            "level_claimed": {
                "category": "other",
                "text": "Static analysis of /repo's current source (ast; nothing from pySMT is imported or run). "
                        "Decides the structural clauses that are necessary conditions of the property, on every "
                        "path / handler / table entry, not the behavioural statement as a whole. " + mod.EXPLANATION,
                "design_ref": "DESIGN.md section 4, %s" % pid,
            },
            "level_note": "Not decided (needs evaluation, outside this technique family): " + "; ".join(mod.NOT_DECIDED) +
                          ". Trusted base: Python semantics of the analysed subset, the reference tables in sa/tables, "
                          "no run-time monkey-patching of walkers/managers.",
        })
    man = {
        "version": 1,
        "setup_cmd": "%s -m compileall -q sa" % PY,
        "hooks": {
            "guard": "PYSMT_PYSMT_VERIF",
            "enable": "none: the checks are static and read /repo's working tree; no instrumentation exists",
            "baseline_off_cmd": "cd /repo && /venv/bin/python -m pytest -ra -q -p no:cacheprovider --timeout=900 --continue-on-collection-errors",
            "source_commits": [],
            "add_only": True,
        },
        "engines": [{
            "name": "sa",
            "path": "/verif/sa",
            "serves_properties": ["C%02d" % i for i in range(1, 21)],
            "kind_free_text": "repository-specific static analyser on Python's ast: import/class/MRO resolution, "
                              "operator-set constant folding, Walker handler tables, statement CFG, path-sensitive "
                              "abstract interpreter with finite domains, reference tables",
        }],
        "checks": checks,
        "not_applicable": NA,
        "notes": "Exit codes of every check: 0 held (KNOWN-FINDING lines for entries of known_findings.json), "
                 "1 unlisted violation (VIOLATION property=<id> replay=<path>), 2 analysis error (never a violation). "
                 "fix: commits in /repo are listed as 'fixed:' entries in known_findings.json.",
    }
    with open(os.path.join(HERE, "MANIFEST.json"), "w") as f:
        json.dump(man, f, indent=1)
    print("MANIFEST.json written with %d checks" % len(checks))


if __name__ == "__main__":
    main()
