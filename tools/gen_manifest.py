#!/venv/bin/python
"""Regenerates MANIFEST.json from the rule modules (EXPLANATION / NOT_DECIDED) so the manifest
cannot drift from what the checks decide."""
import importlib
import json
import os
import sys

HERE = os.path.dirname(os.path.dirname(os.path.abspath(__file__)))
sys.path.insert(0, HERE)

PY = "/venv/bin/python"
TECH = {
    "C01": "handler-table resolution + path-sensitive abstract interpretation of the simplifier handlers on operand classes with symbolic constants (rewrite-rule extraction decided against independent reference semantics over small domains), who-may-call",
    "C02": "abstract interpretation of EagerModel / Model.satisfies with models of symbolic constants, decided against the reference semantics",
    "C03": "who-may-call + CFG dominance on create_node; abstract interpretation of the typing rules per operator and operand-sort triple vs a reference signature function",
    "C04": "who-may-write over the package, CFG pairing on create_node, constructor/accessor payload-layout agreement by interpretation, class-level container rule",
    "C05": "abstract interpretation of both substituters on (skeleton, map) pairs vs an independent reference replacement and the substitution lemma; exhaustive dispatch; instance-reuse probe",
    "C06": "abstract interpretation (symbolic expansion) of derived constructors / infix forms / named methods vs the function the name denotes",
    "C07": "abstract interpretation of the whole export path on concrete skeletons; the written text is read by an independent SMT-LIB reader/evaluator (well-formedness + denotation); exhaustive dispatch",
    "C08": "abstract interpretation of the parser (tokeniser to constructors, type check included) on a script corpus vs the independent reader; token-table rule; reset completeness",
    "C09": "composition by interpretation: printer then parser (SMT-LIB tree / let-DAG, human-readable), script re-serialisation; command-table rule",
    "C10": "abstract interpretation of each rewriter on operator skeletons; equivalence by complete truth table and shape predicate",
    "C11": "abstract interpretation of CNF converters and Ackermannizer; model-by-model equisatisfiability by truth table / function tables; exhaustive dispatch",
    "C12": "exhaustive dispatch; abstract interpretation of the five oracles per operator skeleton vs structural reference definitions; payload-sort cross-check",
    "C13": "abstract interpretation of TheoryOracle on skeletons vs independently computed feature sets; relational normal form of the logic tables and selection comprehensions",
    "C14": "memo-key completeness / one-shot construction sites; effectful-handler and accumulator-reset rules; interpretation of cached Theory freshness; value-keyed cache validation",
    "C15": "abstract interpretation of the DagWalker protocol with a failure injected at every handler call (state equivalence with a fresh walker); register-after-check ordering on the CFG of create_node; parser reset-before-parse",
    "C16": "abstract interpretation of script replay and of the incremental-solver base classes (with the real decorator) over all bounded API sequences vs a reference assertion-stack model; decorator discipline over all solver classes",
    "C17": "abstract interpretation of the text-interface solver against an analysis-side reference solver process over all bounded API sequences; verdict table incl. end-of-file",
    "C18": "push/pop bracket: CFG must-pass-through per open call incl. exceptional exits; comparator table vs reference; 'no solution' rule",
    "C19": "abstract interpretation of Portfolio under an environment model in which the race is an enumerated schedule (arrival orders, time-outs, failing / dying members, repeated solves)",
    "C20": "self-recursion detection over the formula core; abstract interpretation of the traversal on maximally shared DAGs (handler calls and traversal steps grow with nodes, not paths); re-entrancy rule",
}

NA = []   # every property has at least one clause decided statically (see DESIGN.md section 9)


def main():
    checks = []
    for i in range(1, 21):
        pid = "C%02d" % i
        mod = importlib.import_module("sa.rules.%s" % pid.lower())
        checks.append({
            "property_id": pid,
            "quick_cmd": "%s -m sa check %s --tier quick" % (PY, pid),
            "thorough_cmd": "%s -m sa check %s --tier thorough" % (PY, pid),
            "evidence_file": "/verif/evidence/%s.json" % pid,
            "replay_cmd_template": "%s -m sa replay {path}" % PY,
            "engine": "sa",
            "technique": "static analysis: " + TECH[pid],
            "level_claimed": {
                "category": "other",
                "text": "Static analysis of /repo's current source (ast; nothing from pySMT is imported or run; "
                        "the source is interpreted by the analyser over abstract values). What is decided is "
                        "stated clause by clause below, with its bounds; anything beyond those bounds is listed "
                        "under level_note. " + mod.EXPLANATION,
                "design_ref": "DESIGN.md section 4, %s" % pid,
            },
            "level_note": "Not decided: " + "; ".join(mod.NOT_DECIDED) +
                          ". Trusted base: the analyser's model of the Python subset pySMT uses, the reference "
                          "semantics / reader / tables written from the SMT-LIB standard (sa/refsem.py, sa/refsmt.py, sa/tables), "
                          "the analysis-side environment models (solver process, queues), no run-time monkey-patching "
                          "of walkers / managers.",
        })
    man = {
        "version": 1,
        "setup_cmd": "%s -m compileall -q sa" % PY,
        "hooks": {
            "guard": "PYSMT_PYSMT_VERIF",
            "enable": "none: the checks are static and read /repo's working tree; no instrumentation exists",
            "baseline_off_cmd": "cd /repo && /venv/bin/python -m pytest -ra -q -p no:cacheprovider --timeout=900 --continue-on-collection-errors",
            "source_commits": [],
            "add_only": True,
        },
        "engines": [{
            "name": "sa",
            "path": "/verif/sa",
            "serves_properties": ["C%02d" % i for i in range(1, 21)],
            "kind_free_text": "repository-specific static analyser on Python's ast: import/class/MRO resolution, "
                              "operator-set constant folding, Walker handler tables, statement CFG, and a path-sensitive "
                              "abstract interpreter of the package's source (symbolic integers / bit strings, interned "
                              "abstract formula nodes, lazily interpreted generators, models of the standard-library "
                              "objects the code touches) with independent reference semantics and an independent "
                              "SMT-LIB reader; nothing of pySMT is imported or executed",
        }],
        "checks": checks,
        "not_applicable": NA,
        "notes": "Exit codes of every check: 0 held (KNOWN-FINDING lines for entries of known_findings.json), "
                 "1 unlisted violation (VIOLATION property=<id> replay=<path>), 2 analysis error (never a violation). "
                 "fix: commits in /repo are listed as 'fixed:' entries in known_findings.json.",
    }
    with open(os.path.join(HERE, "MANIFEST.json"), "w") as f:
        json.dump(man, f, indent=1)
    print("MANIFEST.json written with %d checks" % len(checks))


if __name__ == "__main__":
    main()
