#!/venv/bin/python
"""Regenerates MANIFEST.json from the rule modules (EXPLANATION / NOT_DECIDED) so the manifest
cannot drift from what the checks decide."""
import importlib
import json
import os
import sys

HERE = os.path.dirname(os.path.dirname(os.path.abspath(__file__)))
sys.path.insert(0, HERE)

PY = "/venv/bin/python"
TECH = {
    "C01": "handler-table resolution + path-sensitive abstract interpretation of the simplifier handlers on operand classes with symbolic constants (rewrite-rule extraction decided against independent reference semantics over small domains), who-may-call",
    "C02": "abstract interpretation of EagerModel / Model.satisfies with models of symbolic constants, decided against the reference semantics",
    "C03": "abstract interpretation of the real FormulaManager (create_node, table, FNode, construction-time type check - nothing modelled) on every constructor x operand-sort combination vs a reference signature function; who-may-allocate over the call-graph region of create_node; exhaustive dispatch",
    "C04": "abstract interpretation of the real FormulaManager: identity of repeated requests, distinctness of different structures, impostor cache keys; constructor/accessor agreement and rebuild identity by interpretation; who-may-write over the call-graph region; class-level container rule",
    "C05": "abstract interpretation of both substituters on (skeleton, map) pairs vs an independent reference replacement and the substitution lemma; exhaustive dispatch; instance-reuse probe",
    "C06": "abstract interpretation (symbolic expansion) of derived constructors / infix forms / named methods vs the function the name denotes",
    "C07": "abstract interpretation of the whole export path on concrete skeletons; the written text is read by an independent SMT-LIB reader/evaluator (well-formedness + denotation); exhaustive dispatch",
    "C08": "abstract interpretation of the parser (tokeniser to constructors, type check included) on a script corpus, on generated applications of every operator token and on one script per command, vs the independent reader; parser-object reuse",
    "C09": "composition by interpretation: printer then parser (SMT-LIB tree / let-DAG, human-readable), script re-serialisation in both forms, per-command round trip",
    "C10": "abstract interpretation of each rewriter on operator skeletons; equivalence by complete truth table and shape predicate",
    "C11": "abstract interpretation of CNF converters and Ackermannizer (fresh and reused instance); model-by-model equisatisfiability by truth table / function tables; exhaustive dispatch",
    "C12": "abstract interpretation of the five oracles per operator skeleton vs structural reference definitions; exhaustive dispatch",
    "C13": "abstract interpretation of TheoryOracle, get_logic and the exported set-logic on skeletons vs independently computed feature sets; the module's logic tables obtained by interpreting its top level, order axioms and selection functions interpreted on all pairs / triples",
    "C14": "abstract interpretation of environment services after a history vs a fresh environment; cached Theory freshness; impostor cache keys on the real manager; memo-key completeness / one-shot construction sites; effectful-handler and accumulator-reset rules",
    "C15": "abstract interpretation with failures injected: at every handler call of every walker, at construction on the real manager (tables and counters compared), in scripts read before a later script",
    "C16": "abstract interpretation of script replay and of the incremental-solver base classes (with the real decorator) over all bounded API sequences vs a reference assertion-stack model; decorator discipline over all solver classes",
    "C17": "abstract interpretation of the text-interface solver against an analysis-side reference solver process over all bounded API sequences; verdict table incl. end-of-file",
    "C18": "abstract interpretation of both optimiser mixins over a brute-force back-end: optimum, model, no-solution, and assertion stack / back-end stack restored on the path taken",
    "C19": "abstract interpretation of Portfolio under an environment model in which the race is an enumerated schedule (arrival orders, time-outs, failing / dying members, repeated solves)",
    "C20": "interpreted call depth of every FNode method on operator towers of two depths; traversal interpreted on maximally shared DAGs (handler calls and steps grow with nodes, not paths); construction cost on the real manager; resolved self-recursion; re-entrancy rule",
}

NA = []   # every property has at least one clause decided statically (see DESIGN.md section 9)


def main():
    checks = []
    for i in range(1, 21):
        pid = "C%02d" % i
        mod = importlib.import_module("sa.rules.%s" % pid.lower())
        checks.append({
            "property_id": pid,
            "quick_cmd": "%s -m sa check %s --tier quick" % (PY, pid),
            "thorough_cmd": "%s -m sa check %s --tier thorough" % (PY, pid),
            "evidence_file": "/verif/evidence/%s.json" % pid,
            "replay_cmd_template": "%s -m sa replay {path}" % PY,
            "engine": "sa",
            "technique": "static analysis: " + TECH[pid],
            "level_claimed": {
                "category": "other",
                "text": "Static analysis of /repo's current source (ast; nothing from pySMT is imported or run; "
                        "the source is interpreted by the analyser over abstract values). What is decided is "
                        "stated clause by clause below, with its bounds; anything beyond those bounds is listed "
                        "under level_note. " + mod.EXPLANATION,
                "design_ref": "DESIGN.md section 4, %s" % pid,
            },
            "level_note": "Not decided: " + "; ".join(mod.NOT_DECIDED) +
                          ". Trusted base: the analyser's model of the Python subset pySMT uses, the reference "
                          "semantics / reader / tables written from the SMT-LIB standard (sa/refsem.py, sa/refsmt.py, sa/tables), "
                          "the analysis-side environment models (solver process, queues), no run-time monkey-patching "
                          "of walkers / managers.",
        })
    man = {
        "version": 1,
        "setup_cmd": "%s -m compileall -q sa" % PY,
        "hooks": {
            "guard": "PYSMT_PYSMT_VERIF",
            "enable": "none: the checks are static and read /repo's working tree; no instrumentation exists",
            "baseline_off_cmd": "cd /repo && /venv/bin/python -m pytest -ra -q -p no:cacheprovider --timeout=900 --continue-on-collection-errors",
            "source_commits": [],
            "add_only": True,
        },
        "engines": [{
            "name": "sa",
            "path": "/verif/sa",
            "serves_properties": ["C%02d" % i for i in range(1, 21)],
            "kind_free_text": "repository-specific static analyser on Python's ast: import/class/MRO resolution, "
                              "operator-set constant folding, Walker handler tables, statement CFG, and a path-sensitive "
                              "abstract interpreter of the package's source (symbolic integers / bit strings, interned "
                              "abstract formula nodes, lazily interpreted generators, models of the standard-library "
                              "objects the code touches) with independent reference semantics and an independent "
                              "SMT-LIB reader; nothing of pySMT is imported or executed",
        }],
        "checks": checks,
        "not_applicable": NA,
        "notes": "Exit codes of every check: 0 held (KNOWN-FINDING lines for entries of known_findings.json), "
                 "1 unlisted violation (VIOLATION property=<id> replay=<path>), 2 analysis error (never a violation). "
                 "fix: commits in /repo are listed as 'fixed:' entries in known_findings.json.",
    }
    with open(os.path.join(HERE, "MANIFEST.json"), "w") as f:
        json.dump(man, f, indent=1)
    print("MANIFEST.json written with %d checks" % len(checks))


if __name__ == "__main__":
    main()
