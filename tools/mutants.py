#!/venv/bin/python
"""Seeded-change bookkeeping.
  collect <Cxx> [A|B ...]  verify a sub-agent's mutant in its scratch worktree /tmp/mut_<Cxx> (demo fails with the
                           patch, passes without; pinned suite still passes) and store it under /verif/seeded/.
  detect [ids...]          apply each stored patch to a scratch worktree, run every check against it
                           (SA_REPO=<worktree>), record which properties report a new VIOLATION.
Nothing is ever applied to /repo by this tool."""
import json
import os
import subprocess
import sys
import shutil
from concurrent.futures import ThreadPoolExecutor

VERIF = os.path.dirname(os.path.dirname(os.path.abspath(__file__)))
PY = "/venv/bin/python"
PROPS = ["C%02d" % i for i in range(1, 21)]


def sh(cmd, cwd=None, env=None, timeout=1800):
    e = dict(os.environ)
    if env:
        e.update(env)
    p = subprocess.run(cmd, shell=True, cwd=cwd, env=e, capture_output=True, text=True, timeout=timeout)
    return p.returncode, p.stdout + p.stderr


def collect(pid, which):
    wt = "/tmp/mut_%s" % pid
    out = []
    for x in which:
        src = os.path.join(wt, "MUTANT", x)
        if not os.path.exists(os.path.join(src, "patch.diff")):
            print("no mutant %s/%s" % (pid, x))
            continue
        mid = "%s-%s" % (pid, x)
        needs_z3 = "z3only" in open(os.path.join(src, "notes.md")).read() + open(os.path.join(src, "demo.py")).read()
        pp = wt + (":/tmp/z3only" if needs_z3 else "")
        sh("git checkout -q -- pysmt", cwd=wt)
        rc0, o0 = sh("%s MUTANT/%s/demo.py" % (PY, x), cwd=wt, env={"PYTHONPATH": pp}, timeout=600)
        rc, o = sh("git apply MUTANT/%s/patch.diff" % x, cwd=wt)
        if rc != 0:
            print("%s: patch does not apply: %s" % (mid, o[-300:]))
            continue
        rc1, o1 = sh("%s MUTANT/%s/demo.py" % (PY, x), cwd=wt, env={"PYTHONPATH": pp}, timeout=600)
        rcs, os_ = sh("%s -m pytest -q -p no:cacheprovider -n 8 --timeout=900 2>&1 | tail -1" % PY, cwd=wt,
                      env={"PYTHONPATH": wt})
        rcc, oc = sh("%s -m compileall -q pysmt" % PY, cwd=wt)
        sh("git checkout -q -- pysmt", cwd=wt)
        sh("find . -name __pycache__ -prune -exec rm -rf {} +", cwd=wt)
        ok = (rc0 == 0 and rc1 != 0 and "376 passed" in os_ and "failed" not in os_ and rcc == 0)
        print("%s: demo clean rc=%d, patched rc=%d, suite: %s -> %s" % (mid, rc0, rc1, os_.strip()[-60:], "KEEP" if ok else "REJECT"))
        if not ok:
            continue
        dst = os.path.join(VERIF, "seeded", mid)
        os.makedirs(dst, exist_ok=True)
        for f in ("patch.diff", "demo.py", "notes.md"):
            shutil.copy(os.path.join(src, f), os.path.join(dst, f))
        meta = {"id": mid, "property": pid, "origin": "independent sub-agent given only the property text and a scratch worktree",
                "demo_cmd": "cd <worktree> && PYTHONPATH=<worktree>%s /venv/bin/python demo.py" % (":/tmp/z3only" if needs_z3 else ""),
                "confirmed": {"demo_clean_rc": rc0, "demo_patched_rc": rc1, "demo_patched_tail": o1.strip()[-300:],
                              "suite_with_patch": os_.strip()[-80:], "compiles": rcc == 0},
                "needs_to_manifest": first_lines(os.path.join(src, "notes.md"))}
        with open(os.path.join(dst, "meta.json"), "w") as f:
            json.dump(meta, f, indent=1)
        out.append(mid)
    return out


def first_lines(path, n=12):
    with open(path) as f:
        return " ".join(l.strip() for l in f.read().splitlines() if l.strip())[:900]


def detect_one(mid):
    d = os.path.join(VERIF, "seeded", mid)
    wt = "/tmp/det_%s" % mid
    sh("git -C /repo worktree remove --force %s" % wt)
    rc, o = sh("git -C /repo worktree add -q %s HEAD" % wt)
    if rc != 0:
        return mid, {"error": o[-200:]}
    try:
        rc, o = sh("git apply %s" % os.path.join(d, "patch.diff"), cwd=wt)
        if rc != 0:
            # the tree moved on since the variant was recorded (fix: commits): three-way merge
            rc, o = sh("git apply --3way %s" % os.path.join(d, "patch.diff"), cwd=wt)
        if rc != 0:
            return mid, {"error": "patch does not apply on current HEAD: " + o[-200:]}
        res = {}
        props = PROPS
        if os.environ.get("MUT_OWN"):
            props = [mid.split("-")[0]] + [x for x in os.environ["MUT_OWN"].split(",") if x.startswith("C")]
        for p in props:
            rc, o = sh("%s -m sa check %s --tier quick --no-evidence" % (PY, p), cwd=VERIF, env={"SA_REPO": wt})
            viol = [l for l in o.splitlines() if l.startswith("VIOLATION")]
            rules = sorted(set(l.split("rule ")[1].split(":")[0] for l in o.splitlines() if ": rule " in l))
            if rc == 1 and viol:
                res[p] = rules
            elif rc == 2:
                res[p] = ["ANALYSIS-ERROR"]
        return mid, res
    finally:
        sh("git -C /repo worktree remove --force %s" % wt)


def detect(ids):
    if not ids:
        ids = sorted(os.listdir(os.path.join(VERIF, "seeded")))
    with ThreadPoolExecutor(max_workers=6) as ex:
        for mid, res in ex.map(detect_one, ids):
            mp = os.path.join(os.environ.get("MUT_META_DIR") or os.path.join(VERIF, "seeded"), mid, "meta.json")
            meta = json.load(open(mp))
            if os.environ.get("MUT_OWN"):
                print("%-8s %s" % (mid, res if res else "MISSED"))
                if os.environ.get("MUT_OWN") != "dry" and "error" not in res:
                    # merge: the checks run now replace their earlier entries, the others are kept
                    db = dict(meta.get("detected_by") or {})
                    db.pop("error", None)
                    ran = [meta["property"]] + [x for x in os.environ["MUT_OWN"].split(",") if x.startswith("C")]
                    for pp in ran:
                        db.pop(pp, None)
                    db.update(res)
                    meta["detected_by"] = db
                    meta["own_check"] = {"verif_commit": sh("git rev-parse --short HEAD", cwd=VERIF)[1].strip(), "checks": ran,
                                         "result": res.get(meta["property"]) or "MISSED"}
                    meta["caught"] = any(v != ["ANALYSIS-ERROR"] for v in db.values())
                    meta["caught_by_own_property"] = meta["property"] in db and db[meta["property"]] != ["ANALYSIS-ERROR"]
                    json.dump(meta, open(mp, "w"), indent=1)
                continue
            meta["checks_run"] = "all 20 quick checks with SA_REPO=<scratch worktree with the patch applied>"
            meta["detected_by"] = res
            own = meta["property"]
            meta["caught"] = bool(res) and "error" not in res
            meta["caught_by_own_property"] = own in res and res[own] != ["ANALYSIS-ERROR"]
            json.dump(meta, open(mp, "w"), indent=1)
            print("%-8s %s" % (mid, res if res else "MISSED"))


if __name__ == "__main__":
    cmd = sys.argv[1]
    if cmd == "collect":
        collect(sys.argv[2], sys.argv[3:] or ["A", "B"])
    elif cmd == "detect":
        detect(sys.argv[2:])
