#!/bin/bash
# rt.sh <refactor-id> PROP...  - apply a refactoring variant to a scratch worktree and run the given checks on it
r=$1; shift
wt=/tmp/rt_$r
git -C /repo worktree remove --force $wt >/dev/null 2>&1
git -C /repo worktree add -q $wt HEAD || exit 3
( cd $wt && (git apply /verif/refactors/$r/patch.diff 2>/dev/null || git apply --3way /verif/refactors/$r/patch.diff) ) || { echo "patch does not apply"; git -C /repo worktree remove --force $wt; exit 3; }
cd /verif
for p in "$@"; do
  out=$(SA_REPO=$wt /venv/bin/python -m sa check $p --tier quick --no-evidence 2>&1 | grep -v "^WARNING")
  rc=$(echo "$out" | tail -1 | grep -c "^OK")
  echo "$r $p: $(echo "$out" | tail -1 | cut -c1-110)"
  echo "$out" | grep -E "rule R|ANALYSIS-ERROR|UNRECOGNISED" | grep -v KNOWN | head -${TAIL:-6} | cut -c1-330
done
git -C /repo worktree remove --force $wt
