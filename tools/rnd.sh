#!/bin/bash
# rnd.sh Cxx X Y : collect two new seeded changes of property Cxx and run the property's own check on each
p=$1; shift
/venv/bin/python /verif/tools/mutants.py collect $p "$@" 2>&1 | grep -v WARN
for x in "$@"; do
  n=$(/verif/tools/mt.sh $p-$x $p 2>&1 | grep -c "^VIOLATION")
  echo "$p-$x own-check violations: $n"
done
